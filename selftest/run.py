#!/usr/bin/env python3
"""Mutation adequacy: every mutant of selftest/mutants must (a) still pass the 42 baseline tests and
(b) make its property's quick check print VIOLATION. Each mutant runs in its own scratch copy of
/repo + /verif (never in /repo). usage: selftest/run.py [JOBS] [name-filter]"""
import concurrent.futures, os, subprocess, sys
HERE = os.path.dirname(os.path.dirname(os.path.abspath(__file__)))
jobs = int(sys.argv[1]) if len(sys.argv) > 1 else 4
flt = sys.argv[2] if len(sys.argv) > 2 else ""
env = dict(os.environ)
env.setdefault("VERIF_SKIP_LAYERS", "miri")
env.setdefault("VERIF_THREADS", "6")
items = [l.split() for l in open(os.path.join(HERE, "selftest", "mutants", "INDEX.tsv")) if l.strip() and flt in l]

def one(item):
    name, prop = item
    p = subprocess.run([os.path.join(HERE, "tools", "scratch_check.sh"), os.path.join(HERE, "selftest", "mutants", name + ".patch"), prop, "quick"], stdout=subprocess.PIPE, stderr=subprocess.STDOUT, env=env, text=True)
    out = p.stdout
    base = "baseline: test result: ok. 42 passed" in out
    fired = ("VIOLATION property=%s" % prop) in out
    return name, prop, base, fired, out

caught = missed = invalid = 0
with concurrent.futures.ThreadPoolExecutor(jobs) as ex:
    for name, prop, base, fired, out in ex.map(one, items):
        if not base:
            invalid += 1
            print("INVALID  %s %s (does not pass the baseline tests)" % (prop, name))
        elif fired:
            caught += 1
            print("CAUGHT   %s %s" % (prop, name))
        else:
            missed += 1
            print("MISSED   %s %s" % (prop, name))
            print("".join("      " + l + "\n" for l in out.splitlines()[:14]))
        sys.stdout.flush()
print("caught %d, missed %d, invalid %d of %d" % (caught, missed, invalid, len(items)))
sys.exit(1 if missed else 0)
