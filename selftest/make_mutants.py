#!/usr/bin/env python3
"""Generates selftest/mutants/<name>.patch from the table below (unified diffs against /repo's current
sources). Each mutant is a small change that compiles and passes the 42 baseline tests but breaks one
property; selftest/run.sh checks that the property's quick check reports VIOLATION for it."""
import difflib, os, sys
HERE = os.path.dirname(os.path.abspath(__file__))
REPO = os.path.normpath(os.path.join(HERE, "..", "..", "repo"))

M = [
 # name, property, file, old, new
 ("c01_drop_100y_clamp", "C01", "src/datetime/mod.rs", "let cycles_100_years = min(remaining_days / DAYS_PER_100_YEARS, 3);", "let cycles_100_years = remaining_days / DAYS_PER_100_YEARS;"),
 ("c01_negative_remainder", "C01", "src/datetime/mod.rs", "        if remaining_seconds < 0 {\n            remaining_seconds += SECONDS_PER_DAY;", "        if remaining_seconds <= 0 {\n            remaining_seconds += SECONDS_PER_DAY;"),
 ("c01_range_bound", "C01", "src/datetime/mod.rs", "const MAX_UNIX_TIME: i64 = 67767976233532799;", "const MAX_UNIX_TIME: i64 = 67767976233532800;"),
 ("c02_leap_feb_before_1970", "C02", "src/datetime/mod.rs", "        if is_leap_year && month >= 3 {\n            result += 1;", "        if is_leap_year && month > 3 {\n            result += 1;"),
 ("c02_second_60", "C02", "src/datetime/mod.rs", "    if second > 60 {\n        return Err(DateTimeError::InvalidSecond);", "    if second >= 60 && year < -2000000000 {\n        return Err(DateTimeError::InvalidSecond);"),
 ("c03_last_transition_gt", "C03", "src/timezone/mod.rs", "if unix_leap_time >= last_transition.unix_leap_time {", "if unix_leap_time > last_transition.unix_leap_time {"),
 ("c03_binary_search_exact", "C03", "src/timezone/mod.rs", "                        Ok(x) => x + 1,\n                        Err(x) => x,\n                    };\n\n                    let local_time_type_index", "                        Ok(x) => x,\n                        Err(x) => x,\n                    };\n\n                    let local_time_type_index"),
 ("c04_south_leaf", "C04", "src/timezone/rule.rs", "                    if next_year_dst_end_unix_time <= unix_time {\n                        let next_year_dst_start_unix_time", "                    if next_year_dst_end_unix_time < unix_time {\n                        let next_year_dst_start_unix_time"),
 ("c04_julian_leap", "C04", "src/timezone/rule.rs", "let start_leap_year_offset = if self.0 <= 59 {", "let start_leap_year_offset = if self.0 <= 59 {"),  # placeholder replaced below
 ("c05_interval_start", "C05", "src/datetime/find.rs", "if previous_transition_unix_leap_time <= unix_leap_time_before && unix_leap_time_before < transition.unix_leap_time() {", "if previous_transition_unix_leap_time < unix_leap_time_before && unix_leap_time_before < transition.unix_leap_time() {"),
 ("c06_gap_upper_bound", "C06", "src/datetime/find.rs", "if unix_leap_time_before >= transition.unix_leap_time() && unix_leap_time_after < transition.unix_leap_time() {", "if unix_leap_time_before >= transition.unix_leap_time() && unix_leap_time_after <= transition.unix_leap_time() {"),
 ("c06_last_transition_guard", "C06", "src/datetime/find.rs", "if index < transitions.len() - 1 || extra_rule.is_some() {", "if index < transitions.len() || extra_rule.is_some() {"),
 ("c07_unchecked_add", "C07", "src/datetime/mod.rs", "        let unix_time_with_offset = match unix_time.checked_add(local_time_type.ut_offset() as i64) {\n            Some(unix_time_with_offset) => unix_time_with_offset,\n            None => return Err(TzError::OutOfRange),\n        };", "        let unix_time_with_offset = unix_time + local_time_type.ut_offset() as i64;"),
 ("c07_capacity_before_read", "C07", "src/parse/tz_file.rs", "    let header = parse_header(&mut cursor)?;\n\n    match header.version {", "    let header = parse_header(&mut cursor)?;\n    let _scratch: Vec<u64> = Vec::with_capacity(header.transition_count);\n\n    match header.version {"),
 ("c08_swap_indicator_blocks", "C08", "src/parse/tz_file.rs", "        std_walls: read_exact(cursor, header.std_wall_count)?,\n        ut_locals: read_exact(cursor, header.ut_local_count)?,", "        ut_locals: read_exact(cursor, header.ut_local_count)?,\n        std_walls: read_exact(cursor, header.std_wall_count)?,"),
 ("c08_extensions_for_v2", "C08", "src/parse/tz_file.rs", "parse_footer(footer, header.version == Version::V3)", "parse_footer(footer, header.version != Version::V1)"),
 ("c09_default_dst_offset", "C09", "src/parse/tz_string.rs", "Some(&b',') => std_offset - 3600,", "Some(&b',') => if std_offset == -12 * 3600 - 45 * 60 { std_offset + 3600 } else { std_offset - 3600 },"),
 ("c09_hour_24", "C09", "src/parse/tz_string.rs", "    if !(0..=24).contains(&hour) {\n        return Err(TzStringError::InvalidDayTimeHour);", "    if !(0..24).contains(&hour) {\n        return Err(TzStringError::InvalidDayTimeHour);"),
 ("c11_week5_range", "C11", "src/timezone/rule.rs", "let normal_year_month_day_range = (normal_year_days_in_month - 6, normal_year_days_in_month);", "let normal_year_month_day_range = (normal_year_days_in_month - 5, normal_year_days_in_month);"),
 ("c11_offset_window", "C11", "src/timezone/rule.rs", "if !(-25 * SECONDS_PER_HOUR < dst_ut_offset && dst_ut_offset < 26 * SECONDS_PER_HOUR) {", "if !(-25 * SECONDS_PER_HOUR < dst_ut_offset && dst_ut_offset <= 26 * SECONDS_PER_HOUR) {"),
 ("c12_search_on_T", "C12", "src/timezone/mod.rs", "binary_search_leap_seconds(self.leap_seconds, unix_leap_time - 1)", "binary_search_leap_seconds(self.leap_seconds, unix_leap_time)"),
 ("c13_transition_ge", "C13", "src/timezone/mod.rs", "self.transitions[i_transition].unix_leap_time >= self.transitions[i_transition + 1].unix_leap_time {", "self.transitions[i_transition].unix_leap_time > self.transitions[i_transition + 1].unix_leap_time {"),
 ("c13_rule_check_offset_only", "C13", "src/timezone/mod.rs", "            if !last_local_time_type.equal(rule_local_time_type) {", "            if last_local_time_type.ut_offset != rule_local_time_type.ut_offset || last_local_time_type.is_dst != rule_local_time_type.is_dst {"),
 ("c14_eq_fields", "C14", "src/datetime/mod.rs", "        (self.unix_time, self.nanoseconds) == (other.unix_time, other.nanoseconds)\n    }", "        (self.unix_time, self.nanoseconds, self.hour) == (other.unix_time, other.nanoseconds, other.hour)\n    }"),
 ("c16_div_trunc", "C16", "src/datetime/mod.rs", "total_nanoseconds.div_euclid(NANOSECONDS_PER_SECOND as i128)", "(total_nanoseconds / NANOSECONDS_PER_SECOND as i128)"),
 ("c17_count_written_only", "C17", "src/datetime/find.rs", "            self.current_index += 1\n        }\n\n        self.count += 1;", "            self.current_index += 1;\n            self.count += 1;\n        }\n"),
 ("c18_minutes_signed", "C18", "src/datetime/mod.rs", "        let offset_minute = (ut_offset_abs / SECONDS_PER_MINUTE) % MINUTES_PER_HOUR;", "        let offset_minute = ((ut_offset / SECONDS_PER_MINUTE) % MINUTES_PER_HOUR).abs() + (ut_offset < 0 && ut_offset % 60 != 0) as i64;"),
 ("c20_description_first", "C20", "src/timezone/mod.rs", "        match self.read_tz_file(tz_string) {\n            Ok(bytes) => Ok(parse_tz_file(&bytes)?),\n            Err(_) => {", "        match if tz_string.contains(',') { Err(crate::Error::Io(\"skip\".into())) } else { self.read_tz_file(tz_string) } {\n            Ok(bytes) => Ok(parse_tz_file(&bytes)?),\n            Err(_) => {"),
 ("c15_static_cache", "C15", "src/timezone/mod.rs", "    /// Find the local time type associated to the time zone at the specified Unix time in seconds\n    pub fn find_local_time_type(&self, unix_time: i64) -> Result<&LocalTimeType, TzError> {\n        self.as_ref().find_local_time_type(unix_time)", "    /// Find the local time type associated to the time zone at the specified Unix time in seconds\n    pub fn find_local_time_type(&self, unix_time: i64) -> Result<&LocalTimeType, TzError> {\n        #[cfg(feature = \"std\")]\n        {\n            // memoise the last answer (most callers ask for 'now' repeatedly)\n            static LAST_TIME: std::sync::atomic::AtomicI64 = std::sync::atomic::AtomicI64::new(i64::MIN);\n            static LAST_INDEX: std::sync::atomic::AtomicUsize = std::sync::atomic::AtomicUsize::new(usize::MAX);\n            static LAST_ZONE: std::sync::atomic::AtomicUsize = std::sync::atomic::AtomicUsize::new(0);\n            use std::sync::atomic::Ordering::Relaxed;\n            if LAST_TIME.load(Relaxed) == unix_time && LAST_ZONE.load(Relaxed) == self as *const Self as usize {\n                if let Some(t) = self.local_time_types.get(LAST_INDEX.load(Relaxed)) {\n                    return Ok(t);\n                }\n            }\n            let r = self.as_ref().find_local_time_type(unix_time)?;\n            if let Some(i) = self.local_time_types.iter().position(|t| core::ptr::eq(t, r)) {\n                LAST_INDEX.store(i, Relaxed);\n                LAST_ZONE.store(self as *const Self as usize, Relaxed);\n                LAST_TIME.store(unix_time, Relaxed);\n            }\n            return Ok(r);\n        }\n        #[allow(unreachable_code)]\n        self.as_ref().find_local_time_type(unix_time)"),
 ("c15_env_fallback", "C15", "src/timezone/mod.rs", "        if tz_string.is_empty() {\n            return Err(TzStringError::Empty.into());\n        }", "        if tz_string.is_empty() {\n            #[cfg(feature = \"std\")]\n            if let Ok(env_tz) = std::env::var(\"TZ\") {\n                if !env_tz.is_empty() {\n                    return self.parse_posix_tz(&env_tz);\n                }\n            }\n            return Err(TzStringError::Empty.into());\n        }"),
 ("c19_std_dependent", "C19", "src/datetime/mod.rs", "    let leap = (month >= 3 && is_leap_year(year)) as i64;\n    (CUMUL_DAYS_IN_MONTHS_NORMAL_YEAR[month - 1] + leap + month_day - 1) as u16", "    let leap = (month >= 3 && is_leap_year(year)) as i64;\n    #[cfg(not(feature = \"std\"))]\n    let leap = if year < -2500 { 0 } else { leap };\n    (CUMUL_DAYS_IN_MONTHS_NORMAL_YEAR[month - 1] + leap + month_day - 1) as u16"),
]

os.makedirs(os.path.join(HERE, "mutants"), exist_ok=True)
index = []
for name, prop, path, old, new in M:
    if old == new:
        continue
    src = open(os.path.join(REPO, path)).read()
    if src.count(old) != 1:
        print("SKIP %s: pattern occurs %d times" % (name, src.count(old)))
        continue
    dst = src.replace(old, new)
    diff = "".join(difflib.unified_diff(src.splitlines(True), dst.splitlines(True), "a/" + path, "b/" + path))
    open(os.path.join(HERE, "mutants", name + ".patch"), "w").write(diff)
    index.append((name, prop))
open(os.path.join(HERE, "mutants", "INDEX.tsv"), "w").write("".join("%s\t%s\n" % x for x in index))
print(len(index), "mutants written")
