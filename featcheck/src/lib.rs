//! C19: the same deterministic workload, compiled against tz-rs built with no features, with
//! `alloc`, and with `std`. Everything in `core_workload` uses only what exists without an allocator
//! (borrowed zones, date-time construction, lookup, the buffer-based search, formatting into a fixed
//! buffer); `alloc_workload` adds owned zones, TZif / TZ-string parsing and the allocating search.
#![no_std]

#[cfg(feature = "alloc")]
extern crate alloc;

use core::fmt::Write;
use tz::datetime::FoundDateTimeKind;
use tz::timezone::{AlternateTime, Julian0WithLeap, Julian1WithoutLeap, LeapSecond, LocalTimeType, MonthWeekDay, RuleDay, Transition, TransitionRule};
use tz::{DateTime, TimeZoneRef, UtcDateTime};

pub struct Digest(pub u64, pub u64);

impl Digest {
    pub fn new() -> Digest {
        Digest(0xcbf29ce484222325, 0)
    }
    pub fn i(&mut self, v: i64) {
        for b in v.to_le_bytes() {
            self.0 ^= b as u64;
            self.0 = self.0.wrapping_mul(0x100000001b3);
        }
        self.1 += 1;
    }
    pub fn b(&mut self, bytes: &[u8]) {
        for &b in bytes {
            self.0 ^= b as u64;
            self.0 = self.0.wrapping_mul(0x100000001b3);
        }
        self.1 += 1;
    }
}

struct Rng(u64);
impl Rng {
    fn next(&mut self) -> u64 {
        self.0 = self.0.wrapping_add(0x9E3779B97F4A7C15);
        let mut z = self.0;
        z = (z ^ (z >> 30)).wrapping_mul(0xBF58476D1CE4E5B9);
        z = (z ^ (z >> 27)).wrapping_mul(0x94D049BB133111EB);
        z ^ (z >> 31)
    }
    fn range(&mut self, lo: i64, hi: i64) -> i64 {
        lo + (self.next() % ((hi - lo + 1) as u64)) as i64
    }
}

/// fixed-capacity text buffer (formatting without an allocator)
struct Buf {
    b: [u8; 96],
    n: usize,
}
impl Write for Buf {
    fn write_str(&mut self, s: &str) -> core::fmt::Result {
        for &c in s.as_bytes() {
            if self.n < self.b.len() {
                self.b[self.n] = c;
                self.n += 1;
            }
        }
        Ok(())
    }
}

/// the text of a value under every kind of format specification (a formatter's width / fill / alignment /
/// precision / sign / alternate flags and Debug): the same in every feature configuration
fn dig_text<T: core::fmt::Display + core::fmt::Debug>(d: &mut Digest, x: &T) {
    macro_rules! one {
        ($fmt:literal) => {{
            let mut buf = Buf { b: [0; 96], n: 0 };
            let r = write!(buf, $fmt, x);
            d.i(r.is_ok() as i64);
            d.b(&buf.b[..buf.n]);
        }};
    }
    one!("{}");
    one!("{:40}");
    one!("{:>44}");
    one!("{:*^48}");
    one!("{:<44}|");
    one!("{:12.10}");
    one!("{:.5}");
    one!("{:+}");
    one!("{:#}");
    one!("{:060}");
    one!("{:?}");
    one!("{:#?}");
}

fn dig_dt(d: &mut Digest, x: &DateTime) {
    d.i(x.unix_time());
    d.i(x.nanoseconds() as i64);
    d.i(x.year() as i64);
    d.i((x.month() as i64) << 32 | (x.month_day() as i64) << 24 | (x.hour() as i64) << 16 | (x.minute() as i64) << 8 | x.second() as i64);
    d.i(x.week_day() as i64);
    d.i(x.year_day() as i64);
    d.i(x.local_time_type().ut_offset() as i64);
    d.b(x.local_time_type().time_zone_designation().as_bytes());
    dig_text(d, x);
}

fn err_code(e: &tz::TzError) -> i64 {
    match e {
        tz::TzError::OutOfRange => -1,
        tz::TzError::NoAvailableLocalTimeType => -2,
        tz::TzError::DateTime(_) => -3,
        tz::TzError::LocalTimeType(_) => -4,
        tz::TzError::TransitionRule(_) => -5,
        tz::TzError::TimeZone(_) => -6,
        _ => -7,
    }
}

/// an error: its class and its Display / Debug text
fn dig_err(d: &mut Digest, e: &tz::TzError) {
    d.i(err_code(e));
    dig_text(d, e);
}

pub fn core_workload(seed: u64, n: u64) -> Digest {
    let mut d = Digest::new();
    let mut r = Rng(seed);
    // borrowed zones built from parts
    let types = [
        LocalTimeType::new(-18000, false, Some(b"EST")).unwrap(),
        LocalTimeType::new(-14400, true, Some(b"EDT")).unwrap(),
        LocalTimeType::new(3600, false, Some(b"CET")).unwrap(),
        LocalTimeType::new(7200, true, Some(b"CEST")).unwrap(),
        LocalTimeType::with_ut_offset(0).unwrap(),
    ];
    let transitions = [Transition::new(-1000000000, 0), Transition::new(-500000000, 1), Transition::new(0, 0), Transition::new(100000000, 3), Transition::new(100003600, 2), Transition::new(946684800, 0)];
    let leaps = [LeapSecond::new(78796800, 1), LeapSecond::new(94694401, 2), LeapSecond::new(126230402, 1)];
    let us_rule = Some(TransitionRule::Alternate(AlternateTime::new(types[0], types[1], RuleDay::MonthWeekDay(MonthWeekDay::new(3, 2, 0).unwrap()), 7200, RuleDay::MonthWeekDay(MonthWeekDay::new(11, 1, 0).unwrap()), 7200).unwrap()));
    let j_rule = Some(TransitionRule::Alternate(AlternateTime::new(types[2], types[3], RuleDay::Julian0WithLeap(Julian0WithLeap::new(0).unwrap()), 0, RuleDay::Julian1WithoutLeap(Julian1WithoutLeap::new(365).unwrap()), 90000).unwrap()));
    let fixed = Some(TransitionRule::Fixed(types[0]));
    let none = None;
    let zones = [
        TimeZoneRef::utc(),
        TimeZoneRef::new(&transitions, &types, &[], &us_rule).unwrap(),
        TimeZoneRef::new(&transitions, &types, &leaps, &none).unwrap(),
        TimeZoneRef::new(&[], &types[2..4], &[], &j_rule).unwrap(),
        TimeZoneRef::new(&transitions[..3], &types, &[], &fixed).unwrap(),
    ];
    // constructor verdicts are part of the digest
    for (tr, rule) in [(&transitions[..], &fixed), (&transitions[..2], &us_rule)] {
        match TimeZoneRef::new(tr, &types, &leaps, rule) {
            Ok(_) => d.i(1),
            Err(e) => dig_err(&mut d, &e),
        }
    }
    // zones with many local time types and transitions, built in fixed-size arrays (no allocator):
    // type k has offset (k - 8) * 1800 s, transitions every ~10 days cycling through all types
    let mut many_types = [LocalTimeType::utc(); 20];
    for (k, t) in many_types.iter_mut().enumerate() {
        *t = LocalTimeType::with_ut_offset((k as i32 - 8) * 1800 + (k as i32 % 3)).unwrap();
    }
    let mut many_transitions = [Transition::new(0, 0); 48];
    let mut tt = -200_000_000i64;
    for (k, tr) in many_transitions.iter_mut().enumerate() {
        tt += 864_000 + (r.next() % 86_400) as i64;
        *tr = Transition::new(tt, (k * 7 + 3) % 20);
    }
    let big_zones = [
        TimeZoneRef::new(&many_transitions, &many_types, &[], &none).unwrap(),
        TimeZoneRef::new(&many_transitions[..31], &many_types, &leaps, &none).unwrap(),
        TimeZoneRef::new(&many_transitions[..9], &many_types, &[], &none).unwrap(),
    ];
    for i in 0..n / 4 + 1 {
        let z = big_zones[(i % 3) as usize];
        let k = (r.next() % 48) as usize;
        let t = many_transitions[k].unix_leap_time() + r.range(-90_000, 900_000);
        match DateTime::from_timespec(t, 1, z) {
            Ok(x) => {
                dig_dt(&mut d, &x);
                let mut buf = [None; 6];
                match DateTime::find_n(&mut buf, x.year(), x.month(), x.month_day(), x.hour(), x.minute(), x.second(), 1, z) {
                    Ok(res) => {
                        d.i(res.count() as i64);
                        for k in res.data().iter().flatten() {
                            match k {
                                FoundDateTimeKind::Normal(a) => dig_dt(&mut d, a),
                                FoundDateTimeKind::Skipped { before_transition, after_transition } => {
                                    dig_dt(&mut d, before_transition);
                                    dig_dt(&mut d, after_transition);
                                }
                            }
                        }
                    }
                    Err(e) => dig_err(&mut d, &e),
                }
            }
            Err(e) => dig_err(&mut d, &e),
        }
    }
    for i in 0..n {
        let t = match i % 4 {
            0 => r.range(-3_000_000_000, 5_000_000_000),
            1 => transitions[(r.next() % 6) as usize].unix_leap_time() + r.range(-2, 2),
            2 => r.range(-67768100567971200 - 5, 67767976233532799 + 5),
            _ => r.range(-200_000_000, 200_000_000),
        };
        let ns = (r.next() % 1_000_000_000) as u32;
        match UtcDateTime::from_timespec(t, ns) {
            Ok(u) => {
                d.i(u.year() as i64);
                d.i(u.year_day() as i64);
                d.i(u.unix_time());
                d.i(u.total_nanoseconds() as i64);
                dig_text(&mut d, &u);
            }
            Err(e) => dig_err(&mut d, &e),
        }
        let z = zones[(r.next() % zones.len() as u64) as usize];
        match z.find_local_time_type(t) {
            Ok(l) => {
                d.i(l.ut_offset() as i64);
                d.i(l.is_dst() as i64);
            }
            Err(e) => dig_err(&mut d, &e),
        }
        match DateTime::from_timespec(t, ns, z) {
            Ok(x) => {
                dig_dt(&mut d, &x);
                if let Ok(p) = x.project(zones[1]) {
                    dig_dt(&mut d, &p);
                }
                // search the local time back, without an allocator
                let mut buf = [None; 4];
                match DateTime::find_n(&mut buf, x.year(), x.month(), x.month_day(), x.hour(), x.minute(), x.second(), ns, z) {
                    Ok(res) => {
                        d.i(res.count() as i64);
                        d.i(res.is_exhaustive() as i64);
                        for k in res.data().iter().flatten() {
                            match k {
                                FoundDateTimeKind::Normal(a) => dig_dt(&mut d, a),
                                FoundDateTimeKind::Skipped { before_transition, after_transition } => {
                                    dig_dt(&mut d, before_transition);
                                    dig_dt(&mut d, after_transition);
                                }
                            }
                        }
                    }
                    Err(e) => dig_err(&mut d, &e),
                }
            }
            Err(e) => dig_err(&mut d, &e),
        }
        match DateTime::from_total_nanoseconds(t as i128 * 1_000_000_000 + ns as i128 - 500_000_000, z) {
            Ok(x) => dig_dt(&mut d, &x),
            Err(e) => dig_err(&mut d, &e),
        }
        // nanosecond counts on either side of a power of two (2^60 .. 2^70): where a narrower path taken in one
        // configuration only would wrap
        {
            let k = 60 + (r.next() % 11) as u32;
            let e = (r.next() % 5) as i128 - 2;
            let total = (if r.next() % 2 == 0 { 1i128 } else { -1i128 } << k) + e + if r.next() % 3 == 0 { (r.next() % 1_000_000_000) as i128 } else { 0 };
            match tz::UtcDateTime::from_total_nanoseconds(total) {
                Ok(x) => {
                    d.i(x.unix_time());
                    d.i(x.nanoseconds() as i64);
                    d.i(x.year() as i64);
                    d.i((x.total_nanoseconds() == total) as i64);
                }
                Err(e) => dig_err(&mut d, &e),
            }
            match DateTime::from_total_nanoseconds_and_local(total, types[(r.next() % 5) as usize]) {
                Ok(x) => {
                    dig_dt(&mut d, &x);
                    d.i((x.total_nanoseconds() == total) as i64);
                }
                Err(e) => dig_err(&mut d, &e),
            }
            match DateTime::from_total_nanoseconds(total, z) {
                Ok(x) => dig_dt(&mut d, &x),
                Err(e) => dig_err(&mut d, &e),
            }
        }
        let y = r.range(-3000, 3000) as i32;
        match DateTime::new(y, 1 + (r.next() % 12) as u8, 1 + (r.next() % 31) as u8, (r.next() % 24) as u8, (r.next() % 60) as u8, (r.next() % 61) as u8, ns, types[(r.next() % 5) as usize]) {
            Ok(x) => dig_dt(&mut d, &x),
            Err(e) => dig_err(&mut d, &e),
        }
    }
    d
}

/// reader of a virtual file system that is sensitive to the exact path string: a path whose hash is even holds a
/// minimal TZif file whose UTC offset encodes that hash, every other path is absent
#[cfg(feature = "alloc")]
pub type Reader = fn(&str) -> Result<alloc::vec::Vec<u8>, alloc::boxed::Box<dyn core::error::Error + Send + Sync + 'static>>;

/// the content of the virtual file system at `path`: `Err(hash)` when the path is absent
#[cfg(feature = "alloc")]
pub fn virtual_file(path: &str) -> Result<alloc::vec::Vec<u8>, u64> {
    virtual_file_salted(path, b"")
}

/// another file system over the same path names: different contents (and a different set of absent paths) per salt;
/// with a non-empty salt every path ending in `localtime` is present
#[cfg(feature = "alloc")]
pub fn virtual_file_salted(path: &str, salt: &[u8]) -> Result<alloc::vec::Vec<u8>, u64> {
    let mut h = Digest::new();
    h.b(salt);
    h.b(path.as_bytes());
    if !salt.is_empty() && path.ends_with("localtime") {
        h.0 &= !1;
    }
    if h.0 % 2 == 1 {
        return Err(h.0);
    }
    let off = (h.0 % 80_000) as i32 - 40_000;
    let mut f = alloc::vec::Vec::new();
    for _ in 0..2 {
        f.extend_from_slice(b"TZif2");
        f.extend_from_slice(&[0u8; 15]);
        for c in [0u32, 0, 0, 0, 1, 4] {
            f.extend_from_slice(&c.to_be_bytes());
        }
        f.extend_from_slice(&off.to_be_bytes());
        f.extend_from_slice(&[0, 0]);
        f.extend_from_slice(b"FIL\0");
    }
    f.extend_from_slice(b"\n\n");
    Ok(f)
}

#[cfg(feature = "alloc")]
fn path_sensitive_reader(path: &str) -> Result<alloc::vec::Vec<u8>, alloc::boxed::Box<dyn core::error::Error + Send + Sync + 'static>> {
    virtual_file(path).map_err(|_| "No such file (virtual)".into())
}

#[cfg(feature = "alloc")]
fn salted_reader_1(path: &str) -> Result<alloc::vec::Vec<u8>, alloc::boxed::Box<dyn core::error::Error + Send + Sync + 'static>> {
    virtual_file_salted(path, b"one:").map_err(|_| "No such file (virtual)".into())
}

#[cfg(feature = "alloc")]
fn salted_reader_2(path: &str) -> Result<alloc::vec::Vec<u8>, alloc::boxed::Box<dyn core::error::Error + Send + Sync + 'static>> {
    virtual_file_salted(path, b"two:").map_err(|_| "No such file (virtual)".into())
}

/// digest of the resolution workload with a caller-supplied reader over the same virtual file system (the std
/// binary passes one that reports absent files as `std::io::Error`s of several kinds: the kind of error a reader
/// reports must not change any result)
#[cfg(feature = "alloc")]
pub fn resolution_digest(reader: Reader) -> Digest {
    let mut d = Digest::new();
    resolution_workload_with(&mut d, reader);
    d
}

/// TZ value resolution through settings with every shape of directory list and a path-sensitive reader: the
/// zone obtained identifies the exact path that was read
#[cfg(feature = "alloc")]
fn resolution_workload(d: &mut Digest) {
    resolution_workload_with(d, path_sensitive_reader)
}

#[cfg(feature = "alloc")]
fn resolution_workload_with(d: &mut Digest, reader: Reader) {
    use tz::TimeZoneSettings;
    const DIRS: [&[&str]; 12] = [&[], &["/d1"], &["/d1", "/d2"], &["/d1/"], &["/d1//", "/d2/"], &[""], &["", "/d1"], &["rel"], &["rel/", "."], &["/"], &["..", "/d1/../d2"], &["/usr/share/zoneinfo", "/share/zoneinfo", "/etc/zoneinfo"]];
    const VALUES: [&str; 30] = [
        "x", "rel", "Europe/Paris", ":x", "::x", "/abs", "/abs/file", "localtime", ":localtime", "", " UTC0 ", "UTC0", "EST5EDT,M3.2.0,M11.1.0", "a/../b", "./rel", "rel/", "//x", ":", "\u{b}UTC0", "UTC0\u{a0}", "America/Argentina/Buenos_Aires", "UTC", "GMT0", ":/etc/localtime", "a", "ab", "abc", "abcd", ":Europe/Paris", "x/",
    ];
    for dirs in DIRS {
        let settings = TimeZoneSettings::new(dirs, reader);
        for v in VALUES {
            match settings.parse_posix_tz(v) {
                Ok(z) => {
                    d.i(z.as_ref().local_time_types().len() as i64);
                    d.i(z.as_ref().local_time_types()[0].ut_offset() as i64);
                    d.b(z.as_ref().local_time_types()[0].time_zone_designation().as_bytes());
                }
                Err(e) => {
                    // the error's class and message (Display only: the Debug text of a boxed reader error shows its type)
                    d.i(-11);
                    let mut buf = Buf { b: [0; 96], n: 0 };
                    let _ = write!(buf, "{}", e);
                    d.b(&buf.b[..buf.n]);
                    d.i(matches!(e, tz::Error::Io(_)) as i64);
                }
            }
        }
        match settings.parse_local() {
            Ok(z) => d.i(z.as_ref().local_time_types()[0].ut_offset() as i64),
            Err(_) => d.i(-12),
        }
    }
    // histories: the same calls through settings whose readers serve *different contents under the same paths*,
    // interleaved and repeated. What a call returns is determined by its own settings and value; an answer that
    // depends on what an earlier call read (a memo kept in one feature configuration only) changes the digest there
    let readers: [Reader; 3] = [reader, salted_reader_1, salted_reader_2];
    const HDIRS: [&[&str]; 4] = [TimeZoneSettings::DEFAULT_DIRECTORIES, &["/d1", "/d2"], &[], &["/usr/share/zoneinfo"]];
    for round in 0..3 {
        for dirs in HDIRS {
            for (k, rd) in readers.iter().enumerate() {
                let settings = TimeZoneSettings::new(dirs, *rd);
                let k = (k + round) % 3;
                for step in 0..4 {
                    let r = match (step + k) % 4 {
                        0 => settings.parse_local(),
                        1 => settings.parse_posix_tz("localtime"),
                        2 => settings.parse_posix_tz("Europe/Paris"),
                        _ => settings.parse_posix_tz(":/etc/localtime"),
                    };
                    match r {
                        Ok(z) => d.i(z.as_ref().local_time_types()[0].ut_offset() as i64),
                        Err(_) => d.i(-13),
                    }
                }
            }
        }
    }
}

/// a well-formed version-2 file with `ntrans` transitions, `nleaps` leap-second records and `ntypes` local time
/// types (sizes no real file has: limits that exist in one feature configuration only show up here)
#[cfg(feature = "alloc")]
fn synthetic_tzif(ntrans: usize, nleaps: usize, ntypes: usize) -> alloc::vec::Vec<u8> {
    let mut f = alloc::vec::Vec::new();
    let header = |f: &mut alloc::vec::Vec<u8>, leap: u32, time: u32, typ: u32, chr: u32| {
        f.extend_from_slice(b"TZif2");
        f.extend_from_slice(&[0u8; 15]);
        for c in [0u32, 0, leap, time, typ, chr] {
            f.extend_from_slice(&c.to_be_bytes());
        }
    };
    // 32-bit block: a stub
    header(&mut f, 0, 0, 1, 4);
    f.extend_from_slice(&0i32.to_be_bytes());
    f.extend_from_slice(&[0, 0]);
    f.extend_from_slice(b"UTC\0");
    // 64-bit block
    header(&mut f, nleaps as u32, ntrans as u32, ntypes as u32, 8);
    for k in 0..ntrans {
        f.extend_from_slice(&(-4_000_000_000i64 + 86_400 * k as i64).to_be_bytes());
    }
    for k in 0..ntrans {
        f.push((k % ntypes) as u8);
    }
    for k in 0..ntypes {
        f.extend_from_slice(&(-40_000i32 + 300 * k as i32).to_be_bytes());
        f.push((k % 2) as u8);
        f.push(if k % 3 == 0 { 0 } else { 4 });
    }
    f.extend_from_slice(b"AAA\0BBB\0");
    for k in 0..nleaps {
        f.extend_from_slice(&(100_000_000i64 + 2_500_000 * k as i64).to_be_bytes());
        f.extend_from_slice(&(k as i32 + 1).to_be_bytes());
    }
    f.extend_from_slice(b"\n\n");
    f
}

#[cfg(feature = "alloc")]
fn size_limits_workload(d: &mut Digest) {
    use tz::TimeZone;
    const SHAPES: [(usize, usize, usize); 16] =
        [(0, 0, 1), (1, 0, 2), (255, 27, 2), (256, 50, 3), (257, 51, 4), (2000, 50, 2), (2001, 0, 2), (2000, 51, 2), (4096, 100, 127), (4097, 255, 128), (65_535, 256, 255), (65_536, 300, 256), (70_000, 1000, 7), (3, 2000, 2), (100_000, 0, 200), (1, 1, 256)];
    for (nt, nl, ny) in SHAPES {
        let bytes = synthetic_tzif(nt, nl, ny);
        match TimeZone::from_tz_data(&bytes) {
            Ok(z) => {
                let r = z.as_ref();
                d.i(r.transitions().len() as i64);
                d.i(r.leap_seconds().len() as i64);
                d.i(r.local_time_types().len() as i64);
                for t in [-5_000_000_000i64, -4_000_000_000 + 86_400 * (nt as i64 / 2), 0, 1_000_000_000] {
                    match z.find_local_time_type(t) {
                        Ok(l) => d.i(l.ut_offset() as i64),
                        Err(e) => dig_err(d, &e),
                    }
                }
            }
            Err(e) => dig_err(d, &e),
        }
    }
}

#[cfg(feature = "alloc")]
pub fn alloc_workload(seed: u64, n: u64, files: &[&[u8]]) -> Digest {
    use alloc::string::ToString;
    use tz::{TimeZone, TimeZoneSettings};
    let mut d = Digest::new();
    resolution_workload(&mut d);
    size_limits_workload(&mut d);
    let mut r = Rng(seed ^ 0x55);
    let settings = TimeZoneSettings::new(&[], |_| Err("no files".into()));
    let strings = ["EST5EDT,M3.2.0,M11.1.0", "CET-1CEST,M3.5.0,M10.5.0/3", "<+0330>-3:30", "NZST-12NZDT,M9.5.0,M4.1.0/3", "EST5EDT", "garbage", "IST-1GMT0,M10.5.0,M3.5.0/1"];
    for i in 0..n {
        let z = if i % 3 == 0 {
            match settings.parse_posix_tz(strings[(r.next() % strings.len() as u64) as usize]) {
                Ok(z) => z,
                Err(_) => {
                    d.i(-9);
                    continue;
                }
            }
        } else {
            match TimeZone::from_tz_data(files[(r.next() % files.len() as u64) as usize]) {
                Ok(z) => z,
                Err(e) => {
                    dig_err(&mut d, &e);
                    continue;
                }
            }
        };
        d.i(z.as_ref().transitions().len() as i64);
        let t = r.range(-3_000_000_000, 5_000_000_000);
        match DateTime::from_timespec(t, 7, z.as_ref()) {
            Ok(x) => {
                dig_dt(&mut d, &x);
                d.b(x.to_string().as_bytes());
                match DateTime::find(x.year(), x.month(), x.month_day(), x.hour(), x.minute(), x.second(), 7, z.as_ref()) {
                    Ok(list) => {
                        d.i(list.unique().is_some() as i64);
                        for k in list.into_inner() {
                            match k {
                                FoundDateTimeKind::Normal(a) => dig_dt(&mut d, &a),
                                FoundDateTimeKind::Skipped { before_transition, after_transition } => {
                                    dig_dt(&mut d, &before_transition);
                                    dig_dt(&mut d, &after_transition);
                                }
                            }
                        }
                    }
                    Err(e) => dig_err(&mut d, &e),
                }
            }
            Err(e) => dig_err(&mut d, &e),
        }
    }
    d
}

// ------------------------------------------------------------------------------------------------
// replay of generated cases (text written by `tzmon C19GEN`), allocation-free

fn num<T: core::str::FromStr>(it: &mut core::str::SplitWhitespace<'_>) -> Option<T> {
    it.next()?.parse().ok()
}

fn parse_type(it: &mut core::str::SplitWhitespace<'_>) -> Option<LocalTimeType> {
    let off: i32 = num(it)?;
    let dst: u8 = num(it)?;
    let name = it.next()?;
    LocalTimeType::new(off, dst != 0, if name == "-" { None } else { Some(name.as_bytes()) }).ok()
}

fn parse_day(it: &mut core::str::SplitWhitespace<'_>) -> Option<RuleDay> {
    let kind: u8 = num(it)?;
    let a: u16 = num(it)?;
    let b: u8 = num(it)?;
    let c: u8 = num(it)?;
    Some(match kind {
        0 => RuleDay::Julian1WithoutLeap(Julian1WithoutLeap::new(a).ok()?),
        1 => RuleDay::Julian0WithLeap(Julian0WithLeap::new(a).ok()?),
        _ => RuleDay::MonthWeekDay(MonthWeekDay::new(a as u8, b, c).ok()?),
    })
}

const MAX_TYPES: usize = 16;
const MAX_TRANSITIONS: usize = 128;
const MAX_LEAPS: usize = 48;

/// Replays every case of `text`; returns the digest and the number of cases that fitted the fixed buffers.
pub fn replay_cases(text: &str) -> (Digest, u64) {
    let mut d = Digest::new();
    let mut cases = 0u64;
    let mut types = [LocalTimeType::utc(); MAX_TYPES];
    let mut transitions = [Transition::new(0, 0); MAX_TRANSITIONS];
    let mut leaps = [LeapSecond::new(0, 0); MAX_LEAPS];
    let (mut nt, mut nr, mut nl) = (0usize, 0usize, 0usize);
    let mut rule: Option<TransitionRule> = None;
    let mut usable = true;
    for line in text.lines() {
        let mut it = line.split_whitespace();
        match it.next() {
            Some("Z") => {
                nt = 0;
                nr = 0;
                nl = 0;
                rule = None;
                usable = true;
            }
            Some("T") => match parse_type(&mut it) {
                Some(t) if nt < MAX_TYPES => {
                    types[nt] = t;
                    nt += 1;
                }
                _ => usable = false,
            },
            Some("R") => match (num::<i64>(&mut it), num::<usize>(&mut it)) {
                (Some(t), Some(i)) if nr < MAX_TRANSITIONS => {
                    transitions[nr] = Transition::new(t, i);
                    nr += 1;
                }
                _ => usable = false,
            },
            Some("L") => match (num::<i64>(&mut it), num::<i32>(&mut it)) {
                (Some(t), Some(c)) if nl < MAX_LEAPS => {
                    leaps[nl] = LeapSecond::new(t, c);
                    nl += 1;
                }
                _ => usable = false,
            },
            Some("F") => match parse_type(&mut it) {
                Some(t) => rule = Some(TransitionRule::Fixed(t)),
                None => usable = false,
            },
            Some("A") => {
                let r = (|| {
                    let std = parse_type(&mut it)?;
                    let dst = parse_type(&mut it)?;
                    let sd = parse_day(&mut it)?;
                    let st: i32 = num(&mut it)?;
                    let ed = parse_day(&mut it)?;
                    let et: i32 = num(&mut it)?;
                    Some(AlternateTime::new(std, dst, sd, st, ed, et))
                })();
                match r {
                    Some(Ok(a)) => rule = Some(TransitionRule::Alternate(a)),
                    Some(Err(_)) => {
                        d.i(-50);
                        usable = false;
                    }
                    None => usable = false,
                }
            }
            Some("Q") | Some("C") if !usable => {}
            Some(kind @ ("Q" | "C")) => {
                let z = match TimeZoneRef::new(&transitions[..nr], &types[..nt], &leaps[..nl], &rule) {
                    Ok(z) => z,
                    Err(e) => {
                        dig_err(&mut d, &e);
                        continue;
                    }
                };
                if kind == "Q" {
                    let u: i64 = match num(&mut it) {
                        Some(u) => u,
                        None => continue,
                    };
                    match z.find_local_time_type(u) {
                        Ok(l) => {
                            d.i(l.ut_offset() as i64);
                            d.i(l.is_dst() as i64);
                            d.b(l.time_zone_designation().as_bytes());
                        }
                        Err(e) => dig_err(&mut d, &e),
                    }
                    match DateTime::from_timespec(u, (u as u32) % 1_000_000_000, z) {
                        Ok(x) => {
                            dig_dt(&mut d, &x);
                            if let Ok(p) = x.project(TimeZoneRef::utc()) {
                                dig_dt(&mut d, &p);
                            }
                        }
                        Err(e) => dig_err(&mut d, &e),
                    }
                } else {
                    let f: [i64; 7] = {
                        let mut f = [0i64; 7];
                        let mut ok = true;
                        for slot in f.iter_mut() {
                            match num::<i64>(&mut it) {
                                Some(v) => *slot = v,
                                None => ok = false,
                            }
                        }
                        if !ok {
                            continue;
                        }
                        f
                    };
                    for n in [4usize, 1, 0] {
                        let mut buf = [None; 4];
                        match DateTime::find_n(&mut buf[..n], f[0] as i32, f[1] as u8, f[2] as u8, f[3] as u8, f[4] as u8, f[5] as u8, f[6] as u32, z) {
                            Ok(res) => {
                                d.i(res.count() as i64);
                                d.i(res.is_exhaustive() as i64);
                                for k in res.data().iter().flatten() {
                                    match k {
                                        FoundDateTimeKind::Normal(a) => dig_dt(&mut d, a),
                                        FoundDateTimeKind::Skipped { before_transition, after_transition } => {
                                            dig_dt(&mut d, before_transition);
                                            dig_dt(&mut d, after_transition);
                                        }
                                    }
                                }
                                if let Some(u) = res.unique() {
                                    dig_dt(&mut d, &u);
                                }
                            }
                            Err(e) => dig_err(&mut d, &e),
                        }
                    }
                }
            }
            Some("E") => {
                if usable {
                    cases += 1;
                }
            }
            _ => {}
        }
    }
    (d, cases)
}
