//! prints the digests of the workloads available in this feature configuration
fn main() {
    let args: Vec<String> = std::env::args().collect();
    let seed: u64 = args.get(1).and_then(|s| s.parse().ok()).unwrap_or(1);
    let n: u64 = args.get(2).and_then(|s| s.parse().ok()).unwrap_or(20000);
    let d = featcheck::core_workload(seed, n);
    println!("core {:016x} {}", d.0, d.1);
    // generated cases (zones + queries of every shape) replayed through the allocation-free API
    if let Some(path) = args.get(4) {
        match std::fs::read_to_string(path) {
            Ok(text) => {
                let (d, cases) = featcheck::replay_cases(&text);
                println!("cases {:016x} {} {}", d.0, d.1, cases);
            }
            Err(e) => {
                eprintln!("cannot read {}: {}", path, e);
                std::process::exit(2);
            }
        }
    }
    #[cfg(feature = "alloc")]
    {
        fn string_errors(path: &str) -> Result<Vec<u8>, Box<dyn std::error::Error + Send + Sync + 'static>> {
            featcheck::virtual_file(path).map_err(|_| "No such file (virtual)".into())
        }
        let d = featcheck::resolution_digest(string_errors);
        println!("resolve {:016x} {}", d.0, d.1);
    }
    #[cfg(feature = "std")]
    {
        // the same virtual file system, absent files reported as std::io::Error values of several kinds
        fn io_errors(path: &str) -> Result<Vec<u8>, Box<dyn std::error::Error + Send + Sync + 'static>> {
            use std::io::{Error, ErrorKind};
            featcheck::virtual_file(path).map_err(|h| {
                let kind = [ErrorKind::NotFound, ErrorKind::PermissionDenied, ErrorKind::Other, ErrorKind::InvalidInput, ErrorKind::Interrupted, ErrorKind::TimedOut][(h / 2 % 6) as usize];
                Box::new(Error::new(kind, "No such file (virtual)")) as Box<dyn std::error::Error + Send + Sync>
            })
        }
        let d = featcheck::resolution_digest(io_errors);
        println!("resolve-io-errors {:016x} {}", d.0, d.1);
    }
    #[cfg(feature = "alloc")]
    {
        let dir = args.get(3).cloned().unwrap_or_default();
        let mut files: Vec<Vec<u8>> = vec![];
        if let Ok(rd) = std::fs::read_dir(&dir) {
            let mut names: Vec<_> = rd.filter_map(|e| e.ok()).map(|e| e.path()).collect();
            names.sort();
            for p in names.iter().take(60) {
                if let Ok(b) = std::fs::read(p) {
                    files.push(b);
                }
            }
        }
        if !files.is_empty() {
            let refs: Vec<&[u8]> = files.iter().map(|v| v.as_slice()).collect();
            let d = featcheck::alloc_workload(seed, n / 10 + 1, &refs);
            println!("alloc {:016x} {}", d.0, d.1);
        }
    }
}
