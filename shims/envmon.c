/* LD_PRELOAD interposer: logs every call that reads or writes process-global time-zone /
 * environment state (C15, observation (c)). One line per call is appended to the file named by
 * TZMON_ENVLOG (read once, in the constructor, with the real getenv). */
#define _GNU_SOURCE
#include <dlfcn.h>
#include <fcntl.h>
#include <stdio.h>
#include <string.h>
#include <time.h>
#include <unistd.h>

static int log_fd = -1;
static char *(*real_getenv)(const char *) = 0;

static void emit(const char *what, const char *arg) {
    if (log_fd < 0) return;
    char buf[512];
    int n = snprintf(buf, sizeof buf, "%s %s\n", what, arg ? arg : "");
    if (n > 0) { if (n > (int)sizeof buf) n = sizeof buf; (void)!write(log_fd, buf, (size_t)n); }
}

__attribute__((constructor)) static void init(void) {
    real_getenv = (char *(*)(const char *))dlsym(RTLD_NEXT, "getenv");
    const char *p = real_getenv ? real_getenv("TZMON_ENVLOG") : 0;
    if (p) log_fd = open(p, O_WRONLY | O_CREAT | O_APPEND | O_CLOEXEC, 0644);
    emit("init", "envmon loaded");
}

char *getenv(const char *name) {
    if (!real_getenv) real_getenv = (char *(*)(const char *))dlsym(RTLD_NEXT, "getenv");
    emit("getenv", name);
    return real_getenv ? real_getenv(name) : 0;
}

char *secure_getenv(const char *name) {
    static char *(*real)(const char *) = 0;
    if (!real) real = (char *(*)(const char *))dlsym(RTLD_NEXT, "secure_getenv");
    emit("secure_getenv", name);
    return real ? real(name) : 0;
}

int setenv(const char *name, const char *value, int overwrite) {
    static int (*real)(const char *, const char *, int) = 0;
    if (!real) real = (int (*)(const char *, const char *, int))dlsym(RTLD_NEXT, "setenv");
    emit("setenv", name);
    return real(name, value, overwrite);
}

int putenv(char *string) {
    static int (*real)(char *) = 0;
    if (!real) real = (int (*)(char *))dlsym(RTLD_NEXT, "putenv");
    emit("putenv", string);
    return real(string);
}

int unsetenv(const char *name) {
    static int (*real)(const char *) = 0;
    if (!real) real = (int (*)(const char *))dlsym(RTLD_NEXT, "unsetenv");
    emit("unsetenv", name);
    return real(name);
}

void tzset(void) {
    static void (*real)(void) = 0;
    if (!real) real = (void (*)(void))dlsym(RTLD_NEXT, "tzset");
    emit("tzset", "");
    real();
}

struct tm *localtime(const time_t *t) {
    static struct tm *(*real)(const time_t *) = 0;
    if (!real) real = (struct tm * (*)(const time_t *)) dlsym(RTLD_NEXT, "localtime");
    emit("localtime", "");
    return real(t);
}

struct tm *localtime_r(const time_t *t, struct tm *r) {
    static struct tm *(*real)(const time_t *, struct tm *) = 0;
    if (!real) real = (struct tm * (*)(const time_t *, struct tm *)) dlsym(RTLD_NEXT, "localtime_r");
    emit("localtime_r", "");
    return real(t, r);
}

time_t mktime(struct tm *tm) {
    static time_t (*real)(struct tm *) = 0;
    if (!real) real = (time_t(*)(struct tm *))dlsym(RTLD_NEXT, "mktime");
    emit("mktime", "");
    return real(tm);
}
