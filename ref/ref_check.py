#!/usr/bin/env python3
"""Offline checker of the C10 event logs: replays every event recorded from tz-rs against CPython's
zoneinfo (posix tree) and glibc's localtime (posix and right trees; TZ=:/abs/path, tzset()) reading
the same vendored files, and TZ descriptions against glibc's TZ-environment parser.

usage: ref_check.py EVENT_DIR BLOB_DIR OUT_JSON [JOBS]
Leap-second instants are excluded by the recorder (glibc renders them as :60 of the previous
minute); instants Python's datetime cannot represent (year < 1 or > 9999) are skipped for zoneinfo.
"""
import datetime
import glob
import json
import multiprocessing
import os
import sys
import time
import zoneinfo

UTC = datetime.timezone.utc


def has_footer_rule(b):
    if b[4:5] == b"\x00" or not b.endswith(b"\n"):
        return False
    i = b[:-1].rfind(b"\n")
    return len(b[i + 1:-1].strip()) > 0


def glibc_at(l):
    lt = time.localtime(l)
    return lt.tm_gmtoff, lt.tm_zone, lt.tm_isdst, (lt.tm_year, lt.tm_mon, lt.tm_mday, lt.tm_hour, lt.tm_min, lt.tm_sec)


def check_part(args):
    path, blob_dir = args
    res = {"events": 0, "fwd_vs_zoneinfo": 0, "fwd_vs_glibc_posix": 0, "fwd_vs_glibc_right": 0, "find_vs_zoneinfo": 0, "find_vs_glibc": 0, "mktime_membership": 0, "str_vs_glibc": 0, "skipped_out_of_python_range": 0, "skipped_glibc_range": 0,
           "no_type_after_last_transition_of_footerless_file": 0, "classes": {}, "disagreements": []}
    zi_cache = {}
    cur_tz = None

    def dis(what, ev, ref):
        if len(res["disagreements"]) < 20:
            res["disagreements"].append({"what": what, "event": ev, "reference": ref})
        else:
            res["disagreements_more"] = res.get("disagreements_more", 0) + 1

    def cls(k, n=1):
        res["classes"][k] = res["classes"].get(k, 0) + n

    for line in open(path):
        if not line.strip():
            continue
        ev = json.loads(line)
        res["events"] += 1
        k = ev["k"]
        if k == "str":
            if cur_tz != ev["tz"]:
                os.environ["TZ"] = ev["tz"]
                time.tzset()
                cur_tz = ev["tz"]
            if not ev["ok"]:
                dis("tz-rs fails on an instant of a TZ-description zone", ev, None)
                continue
            off, zone, isdst, _ = glibc_at(ev["t"])
            res["str_vs_glibc"] += 1
            if (off, zone, bool(isdst)) != (ev["utoff"], ev["abbr"], ev["isdst"]):
                dis("TZ description: tz-rs and glibc's TZ parser disagree", ev, {"utoff": off, "abbr": zone, "isdst": isdst})
            continue
        blob = os.path.join(blob_dir, ev["blob"] + ".tzif")
        right = ev["path"].startswith("right/")
        if not right and blob not in zi_cache:
            with open(blob, "rb") as f:
                zi_cache[blob] = zoneinfo.ZoneInfo.from_file(f, key=ev["path"])
        tzkey = ":" + os.path.abspath(blob)
        if cur_tz != tzkey:
            os.environ["TZ"] = tzkey
            time.tzset()
            cur_tz = tzkey
        if k == "fwd":
            if not ev["ok"]:
                with open(blob, "rb") as f:
                    b = f.read()
                if ev.get("err") == "NoAvailableLocalTimeType" and not has_footer_rule(b):
                    res["no_type_after_last_transition_of_footerless_file"] += 1
                    cls("footerless_file_after_last_transition")
                else:
                    dis("tz-rs gives no answer where the references do", ev, None)
                continue
            cls("kind_" + ev["kind"])
            if not right:
                try:
                    dt = datetime.datetime.fromtimestamp(ev["t"], tz=zi_cache[blob])
                    ref = (int(dt.utcoffset().total_seconds()), dt.tzname(), [dt.year, dt.month, dt.day, dt.hour, dt.minute, dt.second])
                    res["fwd_vs_zoneinfo"] += 1
                    cls("posix_vs_zoneinfo")
                    if ref != (ev["utoff"], ev["abbr"], ev["f"]):
                        dis("tz-rs and zoneinfo disagree", ev, {"utoff": ref[0], "abbr": ref[1], "fields": ref[2]})
                except (OverflowError, ValueError, OSError):
                    res["skipped_out_of_python_range"] += 1
            try:
                off, zone, isdst, fields = glibc_at(ev["l"])
            except (OverflowError, ValueError, OSError):
                res["skipped_glibc_range"] += 1
                continue
            if right:
                res["fwd_vs_glibc_right"] += 1
                cls("right_vs_glibc")
            else:
                res["fwd_vs_glibc_posix"] += 1
                cls("posix_vs_glibc")
            if (off, zone, bool(isdst), list(fields)) != (ev["utoff"], ev["abbr"], ev["isdst"], ev["f"]):
                dis("tz-rs and glibc disagree", ev, {"utoff": off, "abbr": zone, "isdst": isdst, "fields": list(fields)})
            if ev["kind"] == "far_future":
                cls("footer_governed_future")
            if ev["isdst"] and "Dublin" in ev["path"] and ev["utoff"] == 0:
                cls("negative_dst_zone")
        elif k == "find":
            if "err" in ev:
                dis("tz-rs search fails on a valid local time", ev, None)
                continue
            got = sorted((u, o) for u, o in ev["normal"])
            # the set implied by a reference: candidates c - o whose reference offset is o
            if not right:
                try:
                    exp = sorted((u, o) for o, u, l, has in ev["cands"] if has and int(datetime.datetime.fromtimestamp(u, tz=zi_cache[blob]).utcoffset().total_seconds()) == o)
                    res["find_vs_zoneinfo"] += 1
                    if exp != got:
                        dis("search: valid results differ from those implied by zoneinfo", ev, {"implied": exp})
                except (OverflowError, ValueError, OSError):
                    res["skipped_out_of_python_range"] += 1
            try:
                exp = sorted((u, o) for o, u, l, has in ev["cands"] if has and time.localtime(l).tm_gmtoff == o)
                res["find_vs_glibc"] += 1
                cls("fold" if len(exp) >= 2 else ("gap" if len(exp) == 0 and ev["gaps"] else "unique_or_none"))
                if exp != got:
                    dis("search: valid results differ from those implied by glibc", ev, {"implied": exp})
                # mktime must pick one of the valid instants when there is one (posix tree only: same scale)
                if not right and got:
                    y, mo, d, h, mi, s = ev["f"]
                    if 1902 < y < 2037:
                        m = int(time.mktime((y, mo, d, h, mi, s, 0, 0, -1)))
                        res["mktime_membership"] += 1
                        if m not in [u for u, _ in got]:
                            dis("search: glibc mktime's answer is not among the valid results", ev, {"mktime": m})
            except (OverflowError, ValueError, OSError):
                res["skipped_glibc_range"] += 1
    return res


def main():
    ev_dir, blob_dir, out = sys.argv[1], sys.argv[2], sys.argv[3]
    jobs = int(sys.argv[4]) if len(sys.argv) > 4 else (os.cpu_count() or 4)
    parts = sorted(glob.glob(os.path.join(ev_dir, "*.jsonl")))
    t0 = time.time()
    with multiprocessing.Pool(jobs) as pool:
        results = pool.map(check_part, [(p, blob_dir) for p in parts], chunksize=1)
    tot = {"parts": len(parts), "classes": {}, "disagreements": [], "disagreements_total": 0}
    for r in results:
        for k, v in r.items():
            if k == "classes":
                for c, n in v.items():
                    tot["classes"][c] = tot["classes"].get(c, 0) + n
            elif k == "disagreements":
                tot["disagreements_total"] += len(v)
                tot["disagreements"].extend(v[: max(0, 40 - len(tot["disagreements"]))])
            elif k == "disagreements_more":
                tot["disagreements_total"] += v
            else:
                tot[k] = tot.get(k, 0) + v
    tot["wall_s"] = round(time.time() - t0, 2)
    tot["references"] = {"python": sys.version.split()[0], "zoneinfo": "stdlib ZoneInfo.from_file", "glibc": os.confstr("CS_GNU_LIBC_VERSION") if hasattr(os, "confstr") else "?"}
    with open(out, "w") as f:
        json.dump(tot, f, indent=1)


if __name__ == "__main__":
    main()
