"""Monitor layers: each returns a dict {name, evaluations, violations[], ...}."""
import json
import os
import shutil
import subprocess
import sys
import tempfile
import time


class Skip(Exception):
    pass


class LayerInconclusive(Exception):
    pass


class Env:
    def __init__(self, here, prop, tier, seed):
        self.here = here
        self.prop = prop
        self.tier = tier
        self.seed = seed
        self.harness = os.path.join(here, "harness")
        self.repo = os.path.normpath(os.path.join(here, "..", "repo"))
        if not os.path.exists(self.repo) and os.path.isdir("/repo") and os.path.normpath(here) != "/verif":
            # a snapshot of /verif elsewhere (vp run): the harness' path dependency ../../repo must still reach /repo
            try:
                os.symlink("/repo", self.repo)
            except OSError:
                pass
        self.corpus = os.path.join(here, "corpus")
        self.work = os.path.join(here, "work")
        os.makedirs(self.work, exist_ok=True)
        self.threads = int(os.environ.get("VERIF_THREADS", os.cpu_count() or 4))

    def quick(self):
        return self.tier == "quick"


def base_env():
    e = dict(os.environ)
    e["CARGO_NET_OFFLINE"] = "true"
    e.setdefault("CARGO_TERM_COLOR", "never")
    # the checks' own knobs must not leak into the code under test (C15 looks at TZ handling itself)
    return e


def run(cmd, cwd=None, env=None, timeout=None, stdin=None):
    t0 = time.time()
    try:
        p = subprocess.run(cmd, cwd=cwd, env=env or base_env(), stdout=subprocess.PIPE, stderr=subprocess.PIPE, timeout=timeout, input=stdin)
    except subprocess.TimeoutExpired as e:
        raise LayerInconclusive("watchdog: %s did not finish within %ss (wall-clock, not a verdict)" % (" ".join(cmd[:4]), timeout))
    return p.returncode, p.stdout.decode("utf-8", "replace"), p.stderr.decode("utf-8", "replace"), time.time() - t0


_built = {}


def build_harness(env, profile="release", toolchain=None, rustflags=None, target=None, target_dir=None, features=None, bin_name="tzmon", zflags=None):
    """cargo build of the harness (path dependency -> /repo's working tree). Returns the binary path."""
    key = (profile, toolchain, rustflags, target, target_dir, features)
    if key in _built:
        return _built[key]
    cmd = ["cargo"]
    if toolchain:
        cmd.append("+" + toolchain)
    cmd += ["build", "--offline", "--bin", bin_name]
    if profile == "release":
        cmd.append("--release")
    elif profile != "dev":
        cmd += ["--profile", profile]
    if target:
        cmd += ["--target", target]
    if features is not None:
        cmd += ["--no-default-features", "--features", features]
    for z in zflags or []:
        cmd.append(z)
    e = base_env()
    if rustflags:
        e["RUSTFLAGS"] = rustflags
    tdir = target_dir or os.path.join(env.harness, "target")
    e["CARGO_TARGET_DIR"] = tdir
    rc, out, err, wall = run(cmd, cwd=env.harness, env=e, timeout=1800)
    if rc != 0:
        raise LayerInconclusive("harness build failed (profile %s): %s" % (profile, err.strip().splitlines()[-12:]))
    sub = "debug" if profile == "dev" else profile
    path = os.path.join(tdir, target, sub, bin_name) if target else os.path.join(tdir, sub, bin_name)
    if not os.path.exists(path):
        raise LayerInconclusive("harness binary missing after build: %s" % path)
    _built[key] = path
    return path


def run_tzmon(env, profile="release", scale=1.0, opts=None, replay=None, tier=None, threads=None, binary=None, wrapper=None, timeout=None, name=None, prop=None, extra_env=None, counts_distinct=False):
    prop = prop or env.prop
    tier = tier or env.tier
    binary = binary or build_harness(env, profile)
    fd, out = tempfile.mkstemp(prefix="tzmon-%s-" % prop, suffix=".json", dir=env.work)
    os.close(fd)
    cmd = list(wrapper or []) + [binary, prop, "--tier", tier, "--seed", str(env.seed), "--threads", str(threads or env.threads), "--scale", repr(scale), "--corpus", env.corpus, "--out", out]
    for k, v in sorted((opts or {}).items()):
        cmd += ["--opt", "%s=%s" % (k, v)]
    if replay:
        cmd += ["--replay", replay]
    e = base_env()
    e.update(extra_env or {})
    if timeout is None:
        timeout = 900 if tier == "quick" else 7200
    try:
        rc, so, se, wall = run(cmd, cwd=env.harness, env=e, timeout=timeout)
        lname = name or ("tzmon-%s" % profile)
        if rc != 0:
            os.path.exists(out) and os.unlink(out)
            if "TZMON-ALLOC-CAP" in se:
                # allocation above the hard cap: the allocator aborted the process on purpose
                return {"name": lname, "profile": profile, "evaluations": 0, "violations": [{"what": "allocation request above the hard cap (process aborted by the counting allocator)", "input": "see stderr", "expected": "allocation bounded by a small multiple of the input", "observed": se.strip()[-300:], "signature": "alloc-cap", "workload": 0, "index": 0, "seed": env.seed}], "replay_spec": None}
            if rc == 86 and "TZMON-HANG" in se:
                import re
                m = re.search(r"TZMON-HANG workload=(\d+) case=(\d+) cpu_s=(\d+) limit_s=(\d+)", se)
                wl_, idx_, cpu_, lim_ = (int(x) for x in m.groups()) if m else (0, 0, 0, 0)
                what = "unbounded work: a single monitored case had consumed %d s of CPU time (limit %d s) without returning" % (cpu_, lim_)
                v = {"what": what, "input": "workload %d case %d (replay: ./check %s --replay <this file>)" % (wl_, idx_, prop), "expected": "every call returns (CPU time of a case is milliseconds)", "observed": "still running; process ended by the hang monitor", "signature": "hang | workload %d case %d" % (wl_, idx_), "workload": wl_, "index": idx_, "seed": env.seed}
                if prop == "C07":
                    return {"name": lname, "profile": profile, "evaluations": 0, "violations": [v], "replay_spec": {"kind": "tzmon", "profile": profile, "opts": opts or {}, "tier": tier}}
                # for the other properties a call that does not return is not a wrong answer they describe: not their verdict
                raise LayerInconclusive("a monitored case does not return (the hang monitor ended the process): workload %d case %d, %d s of CPU time - see C07" % (wl_, idx_, cpu_))
            raise LayerInconclusive("tzmon exited with status %s: %s" % (rc, se.strip()[-400:]))
        with open(out) as f:
            doc = json.load(f)
    finally:
        if os.path.exists(out):
            os.unlink(out)
    doc["name"] = lname
    doc["profile"] = profile
    doc["cmd"] = " ".join(os.path.relpath(c, env.here) if c.startswith(env.here) else c for c in cmd if not c.endswith(".json") and c != "--out")
    doc["replay_spec"] = {"kind": "tzmon", "profile": profile if not wrapper and not binary_is_special(binary, env) else "release", "opts": opts or {}, "tier": tier}
    doc["counts_distinct"] = counts_distinct
    inconc = list(doc.get("inconclusive", []))
    if not replay and scale >= 1.0 and doc.get("required_classes_missing"):
        inconc.append("required coverage classes with zero observations: %s" % ",".join(doc["required_classes_missing"]))
    if int(doc.get("evaluations", 0)) == 0 and not inconc:
        inconc.append("the monitor observed nothing")
    doc["inconclusive"] = inconc
    return doc


def binary_is_special(binary, env):
    return not binary.startswith(os.path.join(env.harness, "target", "release")) and not binary.startswith(os.path.join(env.harness, "target", "checked"))


def layer(name):
    def deco(fn):
        fn.layer_name = name
        return fn
    return deco


def tzmon_layers(env, profiles=("release", "checked"), opts=None):
    """The standard pair: what users ship (overflow wraps -> wrong answer seen by the oracle) and the
    checked build (overflow / debug assertion / unreachable -> panic event)."""
    out = []
    first = True
    for prof in profiles:
        def mk(prof=prof, first=first):
            @layer("tzmon-%s" % prof)
            def f():
                return run_tzmon(env, profile=prof, opts=opts, counts_distinct=first)
            return f
        out.append(mk())
        first = False
    return out


# ------------------------------------------------------------------------------------------------
# Miri slice: the same monitor, a small slice of its workload, under the UB / data-race interpreter

def miri_layer(env, scale, threads=1, prop=None, opts=None, seeds=None, name="miri", budget=None):
    @layer(name)
    def f():
        tdir = os.path.join(env.harness, "target-miri")
        fd, out = tempfile.mkstemp(prefix="miri-", suffix=".json", dir=env.work)
        os.close(fd)
        e = base_env()
        e["CARGO_TARGET_DIR"] = tdir
        flags = "-Zmiri-disable-isolation"
        if seeds:
            flags += " -Zmiri-many-seeds=%s" % seeds
        e["MIRIFLAGS"] = flags
        cmd = ["cargo", "+nightly", "miri", "run", "--offline", "--bin", "tzmon", "--", prop or env.prop, "--tier", "quick", "--seed", str(env.seed), "--threads", str(threads), "--scale", repr(scale), "--corpus", env.corpus, "--out", out]
        # wall-clock budget of the run: bounds the volume explored by the slice, never a verdict
        cmd += ["--budget", str(budget if budget is not None else (15 if env.quick() else 300))]
        for k, v in sorted((opts or {}).items()):
            cmd += ["--opt", "%s=%s" % (k, v)]
        try:
            rc, so, se, wall = run(cmd, cwd=env.harness, env=e, timeout=3000)
            ub = [ln for ln in se.splitlines() if "Undefined Behavior" in ln or "error: unsupported operation" in ln or "Data race detected" in ln or "memory leaked" in ln]
            if rc != 0 and not ub:
                if "error: could not compile" in se or "error[E" in se:
                    raise LayerInconclusive("miri build failed: %s" % se.strip()[-400:])
                raise LayerInconclusive("miri exited with status %s: %s" % (rc, se.strip()[-400:]))
            doc = {}
            if os.path.exists(out) and os.path.getsize(out) > 0:
                with open(out) as fh:
                    doc = json.load(fh)
        finally:
            if os.path.exists(out):
                os.unlink(out)
        doc.setdefault("evaluations", 0)
        doc.setdefault("violations", [])
        doc["name"] = name
        doc["profile"] = "miri"
        doc["replay_spec"] = {"kind": "tzmon", "profile": "release", "opts": opts or {}, "tier": "quick"}
        doc["sanitizer_reports"] = len(ub)
        for ln in ub[:5]:
            doc["violations"].append({"what": "Miri report", "input": "miri slice scale=%r seed=%d" % (scale, env.seed), "expected": "no undefined behaviour, data race or leak", "observed": ln.strip(), "signature": "miri: " + ln.strip()[:120], "workload": 0, "index": 0, "seed": env.seed})
        doc["cmd"] = "MIRIFLAGS='%s' cargo +nightly miri run --bin tzmon -- %s --scale %r --threads %d" % (flags, prop or env.prop, scale, threads)
        if int(doc["evaluations"]) == 0 and not ub:
            doc.setdefault("inconclusive", []).append("miri slice observed nothing")
        return doc
    return f


# ------------------------------------------------------------------------------------------------

def p_basic(rule_note=""):
    def layers(env):
        return tzmon_layers(env)
    return layers


COMMON_ASSUMPTIONS = [
    "the reference models (harness/src/model) implement the property statement; they are cross-validated at start-up and against each other, but they are hand-written",
    "verdict covers the executions listed under coverage only; inputs not executed are not covered",
    "x86_64-unknown-linux-gnu, rustc stable of this image; other targets (32-bit usize) are not exercised",
]

PROPS = {}


def reg(pid, layers, assumptions=None):
    PROPS[pid] = {"layers": layers, "assumptions": COMMON_ASSUMPTIONS + (assumptions or [])}


def std_layers(miri_scale):
    def f(env):
        ls = tzmon_layers(env)
        ls.append(miri_layer(env, miri_scale))
        return ls
    return f


reg("C01", std_layers(0.0007))
reg("C02", std_layers(0.0005))
reg("C16", std_layers(0.0005))
reg("C18", std_layers(0.02))
reg("C03", std_layers(0.002))
reg("C04", std_layers(0.002))
reg("C05", std_layers(0.0005))
reg("C06", std_layers(0.0005))
reg("C11", std_layers(0.002))
reg("C12", std_layers(0.003))
reg("C17", std_layers(0.0005))
reg("C13", std_layers(0.0005))
reg("C08", std_layers(0.002))
reg("C09", std_layers(0.002))
reg("C20", std_layers(0.02))
reg("C14", std_layers(0.0005))


# ------------------------------------------------------------------------------------------------
# C15: environment interposer, syscall window, artefact sections, auto-traits, ThreadSanitizer

def build_shim(env):
    so = os.path.join(env.work, "envmon.so")
    src = os.path.join(env.here, "shims", "envmon.c")
    if not os.path.exists(so) or os.path.getmtime(so) < os.path.getmtime(src):
        rc, out, err, _ = run(["gcc", "-shared", "-fPIC", "-O2", "-o", so, src, "-ldl"], timeout=120)
        if rc != 0:
            raise LayerInconclusive("cannot build the environment interposer: %s" % err.strip()[-300:])
    return so


def viol(what, inp, expected, observed, seed):
    return {"what": what, "input": inp, "expected": expected, "observed": observed, "signature": "%s | %s" % (what, inp), "workload": 0, "index": 0, "seed": seed}


def envmon_layer(env):
    @layer("envmon")
    def f():
        so = build_shim(env)
        binary = build_harness(env, "release")
        log = os.path.join(env.work, "envlog-%d.txt" % os.getpid())
        runs = []
        violations = []
        total_events = 0
        # baseline + perturbed ambient state: TZ, TZDIR, LANG, working directory
        variants = [("baseline", {}, env.harness), ("TZ=Asia/Tokyo", {"TZ": "Asia/Tokyo"}, env.harness), ("TZ=:/nonexistent TZDIR=/nonexistent", {"TZ": ":/nonexistent", "TZDIR": "/nonexistent"}, env.harness), ("LANG=fr_FR.UTF-8 LC_ALL=tr_TR cwd=/", {"LANG": "fr_FR.UTF-8", "LC_ALL": "tr_TR.UTF-8"}, "/")]
        digests = {}
        evaluations = 0
        for name, extra, cwd in variants:
            if os.path.exists(log):
                os.unlink(log)
            fd, out = tempfile.mkstemp(prefix="c15-", suffix=".json", dir=env.work)
            os.close(fd)
            e = base_env()
            e.pop("TZ", None)
            e.update(extra)
            e["LD_PRELOAD"] = so
            e["TZMON_ENVLOG"] = log
            cmd = [binary, "C15", "--tier", env.tier, "--seed", str(env.seed), "--threads", str(env.threads), "--scale", "0.25", "--corpus", env.corpus, "--out", out]
            try:
                rc, so_, se, wall = run(cmd, cwd=cwd, env=e, timeout=900)
                if rc != 0:
                    raise LayerInconclusive("tzmon under the interposer exited with %s: %s" % (rc, se.strip()[-300:]))
                with open(out) as fh:
                    doc = json.load(fh)
            finally:
                if os.path.exists(out):
                    os.unlink(out)
            evaluations += int(doc.get("evaluations", 0))
            digests[name] = doc.get("workload_digest")
            for v in doc.get("violations", []):
                violations.append(v)
            lines = open(log).read().splitlines() if os.path.exists(log) else []
            total_events += len(lines)
            if not lines or not lines[0].startswith("init"):
                raise LayerInconclusive("interposer not loaded (no init line)")
            try:
                b = lines.index("getenv TZMON_WINDOW_BEGIN")
                en = lines.index("getenv TZMON_WINDOW_END")
            except ValueError:
                raise LayerInconclusive("window markers missing from the interposer log")
            if "getenv TZMON_LIVENESS_PROBE" not in lines[:b]:
                raise LayerInconclusive("liveness probe (a getenv before the window) not seen: the monitor is blind")
            inside = [ln for ln in lines[b + 1:en] if not ln.startswith("getenv RUST_")]
            runs.append({"variant": name, "events": len(lines), "events_in_window": len(lines[b + 1:en]), "non_std_events_in_window": inside[:5]})
            for ln in inside[:5]:
                violations.append(viol("ambient state: environment / libc time-zone call inside the workload window", "variant %s seed %d" % (name, env.seed), "no getenv/setenv/putenv/tzset/localtime* call other than std's own RUST_* lookups", ln, env.seed))
        if os.path.exists(log):
            os.unlink(log)
        base = digests.get("baseline")
        for name, d in digests.items():
            if d != base:
                violations.append(viol("ambient state: results depend on TZ / TZDIR / LANG / working directory", "variant %s seed %d" % (name, env.seed), "workload digest %s" % base, "workload digest %s" % d, env.seed))
        return {"name": "envmon", "profile": "release", "evaluations": evaluations, "violations": violations, "replay_spec": None, "extra": {"runs": runs, "digests": digests, "interposer_events": total_events}, "samples": [runs[0]] if runs else [], "inconclusive": [] if total_events else ["interposer saw no event"]}
    return f


def strace_layer(env, prop="C15", scale="0.25"):
    @layer("strace")
    def f():
        if not shutil.which("strace"):
            raise LayerInconclusive("strace not available")
        binary = build_harness(env, "release")
        log = os.path.join(env.work, "strace-%s-%d.txt" % (prop, os.getpid()))
        fd, out = tempfile.mkstemp(prefix="strace-", suffix=".json", dir=env.work)
        os.close(fd)
        cmd = ["strace", "-f", "-qq", "-e", "trace=open,openat,openat2,creat,access,connect,socket", "-o", log, binary, prop, "--tier", env.tier, "--seed", str(env.seed), "--threads", "8", "--scale", scale, "--corpus", env.corpus, "--out", out]
        try:
            rc, so_, se, wall = run(cmd, cwd=env.harness, timeout=900)
            if rc != 0:
                raise LayerInconclusive("tzmon under strace exited with %s: %s" % (rc, se.strip()[-300:]))
            with open(out) as fh:
                doc = json.load(fh)
            lines = open(log).read().splitlines()
        finally:
            for p in (out, log):
                if os.path.exists(p):
                    os.unlink(p)
        b = next((i for i, ln in enumerate(lines) if "/tzmon-window-begin" in ln), None)
        en = next((i for i, ln in enumerate(lines) if "/tzmon-window-end" in ln), None)
        if b is None or en is None:
            raise LayerInconclusive("window markers missing from the strace log")
        opens_before = [ln for ln in lines[:b] if "open" in ln]
        if not opens_before:
            raise LayerInconclusive("no open* syscall seen before the window: the monitor is blind")
        # glibc's allocator sizes its arenas when a thread first allocates: it reads these files itself
        # (not tz-rs, which has no allocator of its own); everything else inside the window is reported
        libc_internal = ('"/sys/devices/system/cpu', '"/proc/sys/vm/', '"/sys/kernel/mm/')
        cand = [ln for ln in lines[b + 1:en] if ("open" in ln or "creat(" in ln or "socket(" in ln or "connect(" in ln or "access(" in ln) and "resumed>" not in ln and "tzmon-window" not in ln and not any(w in ln for w in libc_internal)]
        # The workload calls the default settings too (TimeZone::local, TimeZone::from_posix_tz): what they may open
        # is fixed by C20 - /etc/localtime, <default directory>/<TZ value>, or an absolute TZ value as it is. Anything
        # else - a relative path (working directory), another file, a socket - is ambient state.
        import re
        default_dirs = ("/usr/share/zoneinfo/", "/share/zoneinfo/", "/etc/zoneinfo/")
        inside, allowed_opens = [], 0
        for ln in cand:
            m = re.search(r'(?:open|openat|openat2)\((?:AT_FDCWD, )?"((?:[^"\\]|\\.)*)"', ln)
            if m and "O_RDONLY" in ln and "O_CREAT" not in ln:
                path = m.group(1)
                if path == "/etc/localtime" or path.startswith(default_dirs) or path in ("/abs/file", "/", "//x"):
                    allowed_opens += 1
                    continue
            inside.append(ln)
        violations = list(doc.get("violations", []))
        for ln in inside[:5]:
            violations.append(viol("ambient state: a system call inside the workload window opens something the TZ resolution rules do not name", "strace of tzmon %s seed %d" % (prop, env.seed), "read-only opens of /etc/localtime, of <default directory>/<TZ value> and of absolute TZ values only", ln.strip(), env.seed))
        if allowed_opens == 0:
            doc.setdefault("inconclusive", []).append("no open of /etc/localtime or a zoneinfo directory was seen inside the window: the default-settings operations did not run")
        return {"name": "strace", "profile": "release", "evaluations": int(doc.get("evaluations", 0)), "violations": violations, "inconclusive": doc.get("inconclusive", []), "replay_spec": None, "extra": {"syscalls_logged": len(lines), "open_calls_before_window": len(opens_before), "syscalls_in_window": en - b - 1, "expected_opens_in_window": allowed_opens, "other_calls_in_window": len(inside)}, "samples": [{"window_syscalls": en - b - 1, "first_open_before_window": opens_before[0].strip()[:160]}]}
    return f


def sections_layer(env):
    @layer("sections")
    def f():
        tdir = os.path.join(env.here, "traits", "target")
        e = base_env()
        e["CARGO_TARGET_DIR"] = tdir
        rc, out, err, wall = run(["cargo", "build", "--offline", "--release"], cwd=os.path.join(env.here, "traits"), env=e, timeout=900)
        if rc != 0:
            # the auto-trait layer interprets build errors; here any failure is inconclusive
            raise LayerInconclusive("cannot build the tz rlib for the artefact scan: %s" % err.strip()[-300:])
        import glob
        rlibs = sorted(glob.glob(os.path.join(tdir, "release", "deps", "libtz-*.rlib")), key=os.path.getmtime)
        if not rlibs:
            raise LayerInconclusive("tz rlib not found")
        rlib = rlibs[-1]
        rc, out, err, _ = run(["readelf", "-S", "-W", rlib], timeout=120)
        if rc != 0 and not out:
            raise LayerInconclusive("readelf failed: %s" % err.strip()[-200:])
        bad = []
        nsec = 0
        writable = 0
        import re
        for ln in out.splitlines():
            m = re.match(r"\s*\[\s*\d+\]\s+(\S+)\s+(\S+)\s+[0-9a-f]+\s+[0-9a-f]+\s+([0-9a-f]+)\s+[0-9a-f]+\s+([A-Za-z]*)\s", ln)
            if not m:
                continue
            name, typ, size, flags = m.group(1), m.group(2), int(m.group(3), 16), m.group(4)
            nsec += 1
            if ("W" in flags or "T" in flags) and size > 0:
                writable += 1
                if not (name.startswith(".data.rel.ro") or name.startswith(".data.DW.ref.")):
                    bad.append("%s type=%s size=%d flags=%s" % (name, typ, size, flags))
        if nsec == 0:
            raise LayerInconclusive("no section parsed from readelf output")
        violations = [viol("global state: the compiled crate carries a writable or thread-local section", os.path.basename(rlib), "only .data.rel.ro* and .data.DW.ref.* (compiler-generated, read-only after relocation)", b, env.seed) for b in bad[:5]]
        return {"name": "sections", "profile": "release", "evaluations": nsec, "violations": violations, "replay_spec": None, "extra": {"sections": nsec, "writable_or_tls_sections": writable, "offending": bad[:10]}, "samples": [{"rlib": os.path.basename(rlib), "sections": nsec, "writable_relro_sections": writable}]}
    return f


def traits_layer(env):
    @layer("auto-traits")
    def f():
        import re, glob
        res = []
        violations = []
        for toolchain, feats in ((None, None), ("nightly", "freeze")):
            cmd = ["cargo"] + (["+" + toolchain] if toolchain else []) + ["build", "--offline"] + (["--features", feats] if feats else [])
            e = base_env()
            e["CARGO_TARGET_DIR"] = os.path.join(env.here, "traits", "target-%s" % (toolchain or "stable"))
            rc, out, err, wall = run(cmd, cwd=os.path.join(env.here, "traits"), env=e, timeout=900)
            if rc != 0:
                blocks = err.split("\nerror")
                e277 = [b for b in blocks if b.startswith("[E0277]") and "src/lib.rs" in b]
                if e277:
                    for b in e277[:5]:
                        first = " ".join(b.splitlines()[:6])
                        violations.append(viol("a public type lost an auto trait (Send / Sync / Unpin / UnwindSafe / Freeze)", "traits crate, %s" % (toolchain or "stable"), "every public type is Send + Sync + Unpin%s" % (" + Freeze" if feats else ""), first[:400], env.seed))
                else:
                    raise LayerInconclusive("traits crate does not build (%s) for another reason than E0277: %s" % (toolchain or "stable", err.strip()[-300:]))
            res.append({"toolchain": toolchain or "stable", "features": feats, "ok": rc == 0})
        # completeness of the list: every pub struct / enum of the sources must be covered
        covered = set(re.findall(r'"(\w+)"', open(os.path.join(env.here, "traits", "src", "lib.rs")).read().split("COVERED")[1]))
        declared = set()
        for p in glob.glob(os.path.join(env.repo, "src", "**", "*.rs"), recursive=True):
            for m in re.finditer(r"^\s*pub (?:struct|enum|union) (\w+)", open(p).read(), re.M):
                declared.add(m.group(1))
        missing = sorted(declared - covered)
        inconc = ["public types not covered by the auto-trait assertions: %s" % ",".join(missing)] if missing else []
        return {"name": "auto-traits", "profile": "build", "evaluations": len(covered) * len(res), "violations": violations, "replay_spec": None, "extra": {"builds": res, "types_asserted": sorted(covered)}, "samples": [{"types": len(covered), "builds": res}], "inconclusive": inconc}
    return f


def tsan_layer(env, prop="C15", scale=1.0):
    @layer("tsan")
    def f():
        tdir = os.path.join(env.harness, "target-tsan")
        try:
            binary = build_harness(env, "release", toolchain="nightly", rustflags="-Zsanitizer=thread", target="x86_64-unknown-linux-gnu", target_dir=tdir, zflags=["-Zbuild-std"])
        except LayerInconclusive as e:
            raise LayerInconclusive("ThreadSanitizer build unavailable: %s" % str(e)[-300:])
        e = {"TSAN_OPTIONS": "halt_on_error=0 exitcode=66 report_signal_unsafe=0"}
        try:
            r = run_tzmon(env, profile="tsan", binary=binary, scale=scale, prop=prop, name="tsan", extra_env=e, timeout=3000)
            r["sanitizer_reports"] = 0
            return r
        except LayerInconclusive as ex:
            msg = str(ex)
            if "ThreadSanitizer" in msg or "status 66" in msg:
                return {"name": "tsan", "profile": "tsan", "evaluations": 0, "sanitizer_reports": 1, "violations": [viol("ThreadSanitizer report", "tzmon %s seed %d" % (prop, env.seed), "no data race", msg[-400:], env.seed)], "replay_spec": None}
            raise
    return f


def c15_layers(env):
    ls = tzmon_layers(env)
    ls.append(envmon_layer(env))
    ls.append(strace_layer(env))
    ls.append(sections_layer(env))
    ls.append(traits_layer(env))
    ls.append(miri_layer(env, 0.02 if env.quick() else 0.05, threads=4, seeds=None if env.quick() else "0..8", budget=30 if env.quick() else 600))
    if not env.quick():
        ls.append(tsan_layer(env))
    return ls


reg("C15", c15_layers, ["the 'all future edits' quantifier is a statement about source text: each run decides it for the tree it was built from", "helgrind/DRD are not used (futex noise on Rust); ThreadSanitizer (thorough) and Miri carry the data-race verdict"])
reg("C07", std_layers(0.002))


# ------------------------------------------------------------------------------------------------
# C19: feature configurations

FEATURE_SETS = [("none", None), ("alloc", "alloc"), ("std", "std")]


def features_layer(env):
    @layer("feature-matrix")
    def f():
        violations = []
        builds = []
        # 1. the crate itself builds in the three configurations (its own manifest, our target directory)
        tdir = os.path.join(env.work, "repo-feature-target")
        ok = {}
        for name, feat in FEATURE_SETS:
            cmd = ["cargo", "build", "--offline", "--manifest-path", os.path.join(env.repo, "Cargo.toml"), "--target-dir", tdir, "--no-default-features"] + (["--features", feat] if feat else [])
            rc, out, err, wall = run(cmd, cwd=env.here, timeout=900)
            ok[name] = rc == 0
            builds.append({"features": name, "ok": rc == 0, "wall_s": round(wall, 1)})
            if rc != 0:
                ok[name + "_err"] = err.strip()[-400:]
        if not ok["std"]:
            raise LayerInconclusive("the crate does not build even with its default features: %s" % ok.get("std_err"))
        for name, _ in FEATURE_SETS[:2]:
            if not ok[name]:
                violations.append(viol("feature configuration does not build", "cargo build --no-default-features%s" % ("" if name == "none" else " --features " + name), "builds (the statement says so)", ok.get(name + "_err", ""), env.seed))
        # 2. the same deterministic workload against tz built with each feature set
        digests = {}
        counts = 0
        cases_replayed = 0
        n = 40000 if env.quick() else 1500000
        # cases from the harness' own generators (all zone shapes, tie rules, IANA rules, leap tables)
        cases_file = os.path.join(env.work, "c19-cases-%d.txt" % os.getpid())
        gen = run_tzmon(env, profile="release", prop="C19GEN", opts={"out": cases_file}, name="case-generator")
        if not os.path.exists(cases_file) or gen.get("inconclusive"):
            raise LayerInconclusive("case generator failed: %s" % gen.get("inconclusive"))
        for name, feat in FEATURE_SETS:
            if not ok[name]:
                continue
            e = base_env()
            e["CARGO_TARGET_DIR"] = os.path.join(env.here, "featcheck", "target-" + name)
            cmd = ["cargo", "build", "--offline", "--release", "--no-default-features"] + (["--features", feat] if feat else [])
            rc, out, err, wall = run(cmd, cwd=os.path.join(env.here, "featcheck"), env=e, timeout=900)
            if rc != 0:
                # the workload uses only API that the statement promises in this configuration
                violations.append(viol("feature configuration: API promised without alloc/std is missing", "featcheck --features %s" % name, "builds", err.strip()[-400:], env.seed))
                continue
            binary = os.path.join(e["CARGO_TARGET_DIR"], "release", "featcheck")
            for seed in (env.seed, env.seed + 1000):
                rc, out, err, wall = run([binary, str(seed), str(n), os.path.join(env.corpus, "zoneinfo", "blobs"), cases_file], timeout=900)
                if rc != 0:
                    violations.append(viol("feature configuration: workload crashed", "featcheck %s seed %d" % (name, seed), "exit 0", "exit %s %s" % (rc, err.strip()[-300:]), env.seed))
                    continue
                for ln in out.splitlines():
                    parts = ln.split()
                    kind, dig, cnt = parts[0], parts[1], parts[2]
                    if kind == "resolve-io-errors":
                        # std only: same virtual file system, absent files reported as std::io::Error values of
                        # several kinds - joins the group of the plain resolution digests
                        digests.setdefault(("resolve", seed), {})[name + "+io-errors"] = dig
                        counts += int(cnt)
                        continue
                    digests.setdefault((kind, seed), {})[name] = dig
                    counts += int(cnt)
                    if kind == "cases":
                        cases_replayed = max(cases_replayed, int(parts[3]))
        for (kind, seed), per in sorted(digests.items()):
            vals = set(per.values())
            if len(vals) > 1:
                violations.append(viol("feature configurations disagree: the same workload gives different results", "%s workload seed %d" % (kind, seed), "identical digests in %s" % sorted(per.keys()), json.dumps(per, sort_keys=True), env.seed))
            if kind in ("core", "cases") and len(per) < 3 and all(ok[n_] for n_, _ in FEATURE_SETS):
                violations.append(viol("feature configuration: core workload missing in a configuration", "seed %d" % seed, "3 digests", json.dumps(per), env.seed))
        if os.path.exists(cases_file):
            os.unlink(cases_file)
        if cases_replayed == 0 and not violations:
            raise LayerInconclusive("no generated case was replayed")
        samples = [{"workload": k[0], "seed": k[1], "digests": v} for k, v in sorted(digests.items())][:6]
        return {"name": "feature-matrix", "profile": "release", "evaluations": counts, "distinct_nontrivial": len(digests) * 3, "counts_distinct": True, "violations": violations, "replay_spec": None,
                "rule": "cases = (feature set, workload, seed): the crate is built with no features, `alloc`, `std`; the core workload (borrowed zones, date-time construction, lookup, find_n, formatting into a fixed buffer; %d iterations x 2 seeds) the alloc workload (owned zones, TZif and TZ-string parsing, allocating search) and a replay of zones + queries generated by the harness' own generators (every zone shape, tie rules, IANA rules, leap tables; lookups, from_timespec, project, find_n with buffers of 4 / 1 / 0 slots), and TZ value resolution (30 values x 12 directory-list shapes, a reader sensitive to the exact path string; in the std build also with absent files reported as std::io::Error values of six kinds) are run against each build and their result digests compared. distinct_nontrivial = (workload, seed, feature set) triples whose digest was compared." % n,
                "extra": {"builds": builds, "generated_cases_replayed_per_build": cases_replayed, "digests": {"%s/%d" % k: v for k, v in digests.items()}}, "samples": samples, "inconclusive": [] if counts else ["no workload was executed"]}
    return f


reg("C19", lambda env: [features_layer(env)], ["the digest equality is differential; each build's results are pinned to the oracles by the other checks, which run the std build"])


# ------------------------------------------------------------------------------------------------
# C10: record with tz-rs, replay against CPython zoneinfo and glibc

def c10_layer(env):
    @layer("record+replay")
    def f():
        evdir = os.path.join(env.work, "c10-events-%d" % os.getpid())
        shutil.rmtree(evdir, ignore_errors=True)
        os.makedirs(evdir)
        refout = os.path.join(env.work, "c10-ref-%d.json" % os.getpid())
        try:
            doc = run_tzmon(env, profile="release", opts={"events": evdir}, name="record+replay", counts_distinct=True)
            py = shutil.which("python3") or sys.executable
            rc, out, err, wall = run([py, os.path.join(env.here, "ref", "ref_check.py"), evdir, os.path.join(env.corpus, "zoneinfo", "blobs"), refout, str(env.threads)], timeout=3000)
            if rc != 0 or not os.path.exists(refout):
                raise LayerInconclusive("reference checker failed: %s" % err.strip()[-400:])
            with open(refout) as fh:
                ref = json.load(fh)
        finally:
            shutil.rmtree(evdir, ignore_errors=True)
            if os.path.exists(refout):
                os.unlink(refout)
        for d in ref.get("disagreements", [])[:10]:
            ev = d.get("event", {})
            inp = json.dumps(ev, sort_keys=True)[:600]
            doc["violations"].append(viol("end-to-end: " + d.get("what", "disagreement with a reference implementation"), inp, json.dumps(d.get("reference"))[:300], "tz-rs: see event", env.seed))
        doc["violations_total"] = int(doc.get("violations_total", 0)) + int(ref.get("disagreements_total", 0))
        classes = dict(doc.get("classes", {}))
        classes.update(ref.get("classes", {}))
        for k in ("fwd_vs_zoneinfo", "fwd_vs_glibc_posix", "fwd_vs_glibc_right", "find_vs_zoneinfo", "find_vs_glibc", "mktime_membership", "str_vs_glibc", "skipped_out_of_python_range", "skipped_glibc_range"):
            classes["compared/" + k] = ref.get(k, 0)
        doc["classes"] = classes
        need = ["posix_vs_zoneinfo", "posix_vs_glibc", "right_vs_glibc", "footer_governed_future", "fold", "gap", "negative_dst_zone", "file_version_3", "compared/str_vs_glibc", "compared/find_vs_glibc", "find_event_in_rule_governed_future"]
        missing = [k for k in need if not classes.get(k)]
        if missing:
            doc.setdefault("inconclusive", []).append("required coverage classes with zero observations: %s" % ",".join(missing))
        if int(ref.get("events", 0)) != int(doc.get("evaluations", -1)):
            doc.setdefault("inconclusive", []).append("the replayer saw %s events but %s were recorded" % (ref.get("events"), doc.get("evaluations")))
        doc["extra"] = {"references": ref.get("references"), "replay_wall_s": ref.get("wall_s"), "parts": ref.get("parts")}
        doc["replay_spec"] = None
        return doc
    return f


reg("C10", lambda env: [c10_layer(env)], ["CPython's zoneinfo and glibc 2.36 are the oracles; leap-second instants themselves are excluded (glibc renders them as :60), instants after the last transition of a footer-less file are compared only for 'no local time type', TZ descriptions are compared on the sub-language where glibc is authoritative (rule days well inside the year, times 0-24 h, no RFC 8536 extensions)"])


# ------------------------------------------------------------------------------------------------
# thorough-tier sanitizer layers: libFuzzer + ASan targets with the oracles inside, valgrind memcheck

def fuzz_layer(env, target, seconds, seeds_dir=None, max_len=None, prop=None):
    """prop: for target `model` (input = decision tape of the harness' generators), the property whose oracle runs."""
    @layer("libfuzzer-" + target)
    def f():
        fuzz_dir = os.path.join(env.here, "fuzz")
        e = base_env()
        rc, out, err, wall = run(["cargo", "+nightly", "fuzz", "build", "--fuzz-dir", fuzz_dir, target], cwd=env.harness, env=e, timeout=3000)
        binary = os.path.join(fuzz_dir, "target", "x86_64-unknown-linux-gnu", "release", target)
        if rc != 0 or not os.path.exists(binary):
            raise LayerInconclusive("cargo fuzz build failed: %s" % err.strip()[-400:])
        corpus = os.path.join(fuzz_dir, "corpus", target + ("-" + prop if prop else ""))
        os.makedirs(corpus, exist_ok=True)
        if prop:
            e["TZMON_FUZZ_PROP"] = prop
        art = os.path.join(env.work, "fuzz-artifacts-%s%s" % (target, "-" + prop if prop else ""))
        shutil.rmtree(art, ignore_errors=True)
        os.makedirs(art)
        cmd = [binary, "-max_total_time=%d" % seconds, "-timeout=10", "-rss_limit_mb=4096", "-fork=%d" % max(2, min(12, env.threads - 2)), "-ignore_crashes=0", "-ignore_timeouts=0", "-ignore_ooms=0", "-seed=%d" % env.seed, "-artifact_prefix=%s/" % art, "-print_final_stats=1"]
        if max_len:
            cmd.append("-max_len=%d" % max_len)
        cmd.append(corpus)
        if seeds_dir:
            cmd.append(seeds_dir)
        rc, out, err, wall = run(cmd, cwd=fuzz_dir, env=e, timeout=seconds + 600)
        log = err + out
        import re
        execs = 0
        for m in re.finditer(r"#(\d+):? cov: (\d+)", log):
            execs = max(execs, int(m.group(1)))
        m = re.search(r"stat::number_of_executed_units:\s*(\d+)", log)
        if m:
            execs = max(execs, int(m.group(1)))
        cov = [int(m.group(2)) for m in re.finditer(r"#(\d+):? cov: (\d+)", log)]
        violations = []
        arts = sorted(os.listdir(art))
        if rc != 0 or arts:
            mv = re.search(r"TZMON-FUZZ-VIOLATION (.*)", log)
            what = "libFuzzer target %s: %s" % (target, "monitor violation" if mv else "crash / sanitizer report / timeout")
            keep = None
            if arts:
                keep = os.path.join(env.here, "replays", "fuzz-%s-%s" % (target + ("-" + prop if prop else ""), arts[0]))
                shutil.copy(os.path.join(art, arts[0]), keep)
            violations.append(viol(what, "artifact %s" % keep, "no crash, no sanitizer report, oracle silent", (mv.group(1) if mv else log.strip()[-500:])[:600], env.seed))
        shutil.rmtree(art, ignore_errors=True)
        inconc = [] if execs > 0 or violations else ["libFuzzer executed nothing: %s" % log.strip()[-300:]]
        herr = re.search(r"TZMON-FUZZ-HARNESS-ERROR (.*)", log)
        if herr and not violations:
            inconc.append("harness error inside the libFuzzer target (not a verdict on tz-rs): %s" % herr.group(1)[:300])
        return {"name": "libfuzzer-" + target, "profile": "asan+overflow-checks", "evaluations": execs, "violations": violations, "replay_spec": None, "sanitizer_reports": len(violations),
                "extra": {"seconds": seconds, "executions": execs, "edge_coverage_final": cov[-1] if cov else None}, "samples": [{"target": target, "executions": execs, "coverage_edges": cov[-1] if cov else None}], "inconclusive": inconc}
    return f


def valgrind_blocks(text):
    """Splits a memcheck log into report blocks: (headline, [frame function names innermost first])."""
    import re
    blocks, cur = [], None
    for ln in text.splitlines():
        m = re.match(r"==\d+== ?(.*)$", ln)
        if not m:
            continue
        body = m.group(1)
        fm = re.match(r"\s+(?:at|by) 0x[0-9A-Fa-f]+: (.*)$", body)
        if fm:
            if cur is not None:
                cur[1].append(fm.group(1))
        elif body.strip() == "":
            if cur is not None and cur[1]:
                blocks.append(cur)
            cur = None
        elif cur is None and not body.startswith("Thread ") and not body.startswith(" "):
            cur = [body.strip(), []]
    if cur is not None and cur[1]:
        blocks.append(cur)
    return blocks


def valgrind_layer(env, scale, prop=None):
    """memcheck over a slice of the release build. tz-rs forbids unsafe code, so a report can only come from the
    std/alloc paths it drives, from a miscompilation, or from memcheck's known false positives on optimised code
    (partially initialised words compared as a whole). A block is attributed by its innermost frame that is not
    std/core/alloc: `tz::` -> violation; `tzmon::` (the harness, also safe Rust) -> counted and shown in the
    evidence, not a verdict on tz-rs; neither -> inconclusive."""
    @layer("valgrind-memcheck")
    def f():
        if not shutil.which("valgrind"):
            raise LayerInconclusive("valgrind not available")
        binary = build_harness(env, "release")
        fd, log = tempfile.mkstemp(prefix="memcheck-", suffix=".log", dir=env.work)
        os.close(fd)
        try:
            r = run_tzmon(env, profile="release", binary=binary, scale=scale, prop=prop, threads=4, name="valgrind-memcheck", wrapper=["valgrind", "--quiet", "--error-exitcode=0", "--errors-for-leak-kinds=none", "--undef-value-errors=yes", "--num-callers=40", "--log-file=" + log], timeout=6000, extra_env={"TZMON_HANG_CPU_S": "3000"})
            text = open(log, errors="replace").read()
        finally:
            if os.path.exists(log):
                os.unlink(log)
        blocks = valgrind_blocks(text)
        in_tz, in_harness, other = [], [], []
        for head, frames in blocks:
            owner = None
            import re
            for fr in frames:
                # whichever crate is named first in the frame's symbol decides (generic instantiations name both)
                mt = re.search(r"(?<![A-Za-z0-9_])tz::", fr)
                mh = re.search(r"(?<![A-Za-z0-9_])tzmon::", fr)
                if mt and (not mh or mt.start() < mh.start()):
                    owner = "tz"
                    break
                if mh:
                    owner = "harness"
                    break
            (in_tz if owner == "tz" else in_harness if owner == "harness" else other).append((head, frames))
        r["sanitizer_reports"] = len(in_tz)
        r["replay_spec"] = None
        r.setdefault("extra", {})
        r["extra"].update({"memcheck_blocks": len(blocks), "blocks_in_tz_rs": len(in_tz), "blocks_in_harness_code_ignored": len(in_harness), "blocks_elsewhere": len(other),
                           "harness_block_sites": sorted(set("%s @ %s" % (h, fr[0][:80]) for h, fr in in_harness))[:6]})
        for head, frames in in_tz[:5]:
            r["violations"].append(viol("valgrind memcheck report in tz-rs code", "tzmon %s scale %r" % (prop or env.prop, scale), "no invalid access / uninitialised value", head + " | " + " <- ".join(fr[:90] for fr in frames[:6]), env.seed))
        if other:
            r.setdefault("inconclusive", []).append("memcheck blocks attributed neither to tz-rs nor to the harness: %s @ %s" % (other[0][0], other[0][1][0][:120]))
        return r
    return f


def c07_layers(env):
    ls = tzmon_layers(env)
    ls.append(miri_layer(env, 0.002))
    if not env.quick():
        ls.append(fuzz_layer(env, "file", int(os.environ.get("VERIF_FUZZ_SECONDS", "120")), seeds_dir=os.path.join(env.corpus, "zoneinfo", "blobs")))
        ls.append(fuzz_layer(env, "string", 60, max_len=96))
        ls.append(valgrind_layer(env, 0.02))
    return ls


def c08_layers(env):
    ls = tzmon_layers(env)
    ls.append(miri_layer(env, 0.002))
    if not env.quick():
        ls.append(fuzz_layer(env, "file", int(os.environ.get("VERIF_FUZZ_SECONDS", "120")), seeds_dir=os.path.join(env.corpus, "zoneinfo", "blobs")))
    return ls


def c09_layers(env):
    ls = tzmon_layers(env)
    ls.append(miri_layer(env, 0.002))
    if not env.quick():
        ls.append(fuzz_layer(env, "string", int(os.environ.get("VERIF_FUZZ_SECONDS", "120")), max_len=96))
    return ls


reg("C07", c07_layers, ["a clean sanitizer run is not memory safety; tz-rs forbids unsafe code, so the sanitizers are sentinels against a future edit"])
reg("C08", c08_layers)
reg("C09", c09_layers)


# ------------------------------------------------------------------------------------------------
# AddressSanitizer slice and (evidence only) llvm-cov region coverage of the anchored sources

def asan_layer(env, scale, prop=None):
    @layer("asan")
    def f():
        tdir = os.path.join(env.harness, "target-asan")
        try:
            binary = build_harness(env, "release", toolchain="nightly", rustflags="-Zsanitizer=address -Cforce-frame-pointers=yes", target="x86_64-unknown-linux-gnu", target_dir=tdir)
        except LayerInconclusive as e:
            raise LayerInconclusive("AddressSanitizer build unavailable: %s" % str(e)[-300:])
        e = {"ASAN_OPTIONS": "halt_on_error=1:abort_on_error=0:detect_leaks=1:exitcode=77", "TZMON_HANG_CPU_S": "1800"}
        try:
            r = run_tzmon(env, profile="asan", binary=binary, scale=scale, prop=prop, name="asan", extra_env=e, timeout=3000)
            r["sanitizer_reports"] = 0
            r["replay_spec"] = {"kind": "tzmon", "profile": "release", "opts": {}, "tier": env.tier}
            return r
        except LayerInconclusive as ex:
            msg = str(ex)
            if "AddressSanitizer" in msg or "LeakSanitizer" in msg or "status 77" in msg:
                return {"name": "asan", "profile": "asan", "evaluations": 0, "sanitizer_reports": 1, "violations": [viol("AddressSanitizer / LeakSanitizer report", "tzmon %s scale %r seed %d" % (prop or env.prop, scale, env.seed), "no heap error, no leak", msg[-500:], env.seed)], "replay_spec": None}
            raise
    return f


def coverage_layer(env, scale, files):
    """Which regions of the anchored source files the workload executed. Evidence only: this layer never
    produces a violation and its failure only makes itself unavailable (skipped), not the check."""
    @layer("coverage")
    def f():
        import glob
        tools = [d for d in glob.glob(os.path.expanduser("~/.rustup/toolchains/nightly-x86_64*/lib/rustlib/*/bin")) + glob.glob(os.path.expanduser("~/.rustup/toolchains/*/lib/rustlib/*/bin")) if os.path.exists(os.path.join(d, "llvm-profdata")) and os.path.exists(os.path.join(d, "llvm-cov"))]
        if not tools:
            raise Skip("llvm-tools (llvm-profdata, llvm-cov) not found")
        tdir = os.path.join(env.harness, "target-cov")
        try:
            binary = build_harness(env, "release", toolchain="nightly", rustflags="-Cinstrument-coverage", target_dir=tdir)
        except LayerInconclusive as e:
            raise Skip("coverage build unavailable: %s" % str(e)[-200:])
        prof = os.path.join(env.work, "cov-%s-%d.profraw" % (env.prop, os.getpid()))
        data = prof.replace(".profraw", ".profdata")
        try:
            r = run_tzmon(env, profile="coverage", binary=binary, scale=scale, name="coverage", extra_env={"LLVM_PROFILE_FILE": prof, "TZMON_HANG_CPU_S": "1800"}, timeout=3000)
            rc, out, err, _ = run([os.path.join(tools[0], "llvm-profdata"), "merge", "-sparse", prof, "-o", data], timeout=600)
            if rc != 0:
                raise Skip("llvm-profdata failed")
            rc, out, err, _ = run([os.path.join(tools[0], "llvm-cov"), "export", "-summary-only", "-instr-profile", data, binary], timeout=600)
            if rc != 0:
                raise Skip("llvm-cov failed")
            doc = json.loads(out)
        finally:
            for p in (prof, data):
                if os.path.exists(p):
                    os.unlink(p)
        cov = {}
        for fdoc in doc["data"][0]["files"]:
            name = fdoc["filename"]
            if "/repo/src/" in name or name.startswith(os.path.join(env.repo, "src")):
                rel = name.split("/src/", 1)[1]
                if not files or rel in files:
                    s = fdoc["summary"]
                    cov[rel] = {"regions": s["regions"]["count"], "regions_covered": s["regions"]["covered"], "lines": s["lines"]["count"], "lines_covered": s["lines"]["covered"], "functions": s["functions"]["count"], "functions_covered": s["functions"]["covered"]}
        r["violations"] = []  # the oracle verdict belongs to the native layers; this layer only measures reach
        r["violations_total"] = 0
        r["inconclusive"] = []
        r["extra"] = {"region_coverage_of_anchored_sources": cov}
        r["replay_spec"] = None
        r["samples"] = [{"file": k, "regions_covered": "%d/%d" % (v["regions_covered"], v["regions"])} for k, v in sorted(cov.items())][:6]
        return r
    return f


ANCHORS = {}
for _line in open(os.path.join(os.path.dirname(os.path.abspath(__file__)), "..", "properties.jsonl")):
    _p = json.loads(_line)
    ANCHORS[_p["id"]] = [f.split("src/", 1)[1] if "src/" in f else f for f in _p["anchors"].get("files", [])]


MODEL_FUZZ_PROPS = ("C01", "C02", "C03", "C04", "C05", "C06", "C11", "C12", "C13", "C14", "C16", "C17", "C18")


def with_thorough_extras(base, asan_scale=None, cov_scale=0.05):
    def f(env):
        ls = base(env)
        if not env.quick():
            if env.prop in MODEL_FUZZ_PROPS:
                ls.append(fuzz_layer(env, "model", int(os.environ.get("VERIF_FUZZ_SECONDS", "90")), max_len=512, prop=env.prop))
            if asan_scale:
                ls.append(asan_layer(env, asan_scale))
            ls.append(coverage_layer(env, cov_scale, ANCHORS.get(env.prop, [])))
        return ls
    return f


for _pid, _asan in (("C01", None), ("C02", None), ("C03", 0.02), ("C04", 0.02), ("C05", 0.01), ("C06", 0.01), ("C07", 0.02), ("C08", 0.02), ("C09", 0.02), ("C11", None), ("C12", 0.02), ("C13", 0.02), ("C14", 0.02), ("C16", None), ("C17", 0.01), ("C18", 0.02), ("C20", 0.2)):
    PROPS[_pid]["layers"] = with_thorough_extras(PROPS[_pid]["layers"], _asan)
