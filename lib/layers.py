"""Monitor layers: each returns a dict {name, evaluations, violations[], ...}."""
import json
import os
import shutil
import subprocess
import sys
import tempfile
import time


class Skip(Exception):
    pass


class LayerInconclusive(Exception):
    pass


class Env:
    def __init__(self, here, prop, tier, seed):
        self.here = here
        self.prop = prop
        self.tier = tier
        self.seed = seed
        self.harness = os.path.join(here, "harness")
        self.repo = os.path.normpath(os.path.join(here, "..", "repo"))
        self.corpus = os.path.join(here, "corpus")
        self.work = os.path.join(here, "work")
        os.makedirs(self.work, exist_ok=True)
        self.threads = int(os.environ.get("VERIF_THREADS", os.cpu_count() or 4))

    def quick(self):
        return self.tier == "quick"


def base_env():
    e = dict(os.environ)
    e["CARGO_NET_OFFLINE"] = "true"
    e.setdefault("CARGO_TERM_COLOR", "never")
    # the checks' own knobs must not leak into the code under test (C15 looks at TZ handling itself)
    return e


def run(cmd, cwd=None, env=None, timeout=None, stdin=None):
    t0 = time.time()
    try:
        p = subprocess.run(cmd, cwd=cwd, env=env or base_env(), stdout=subprocess.PIPE, stderr=subprocess.PIPE, timeout=timeout, input=stdin)
    except subprocess.TimeoutExpired as e:
        raise LayerInconclusive("watchdog: %s did not finish within %ss (wall-clock, not a verdict)" % (" ".join(cmd[:4]), timeout))
    return p.returncode, p.stdout.decode("utf-8", "replace"), p.stderr.decode("utf-8", "replace"), time.time() - t0


_built = {}


def build_harness(env, profile="release", toolchain=None, rustflags=None, target=None, target_dir=None, features=None, bin_name="tzmon", zflags=None):
    """cargo build of the harness (path dependency -> /repo's working tree). Returns the binary path."""
    key = (profile, toolchain, rustflags, target, target_dir, features)
    if key in _built:
        return _built[key]
    cmd = ["cargo"]
    if toolchain:
        cmd.append("+" + toolchain)
    cmd += ["build", "--offline", "--bin", bin_name]
    if profile == "release":
        cmd.append("--release")
    elif profile != "dev":
        cmd += ["--profile", profile]
    if target:
        cmd += ["--target", target]
    if features is not None:
        cmd += ["--no-default-features", "--features", features]
    for z in zflags or []:
        cmd.append(z)
    e = base_env()
    if rustflags:
        e["RUSTFLAGS"] = rustflags
    tdir = target_dir or os.path.join(env.harness, "target")
    e["CARGO_TARGET_DIR"] = tdir
    rc, out, err, wall = run(cmd, cwd=env.harness, env=e, timeout=1800)
    if rc != 0:
        raise LayerInconclusive("harness build failed (profile %s): %s" % (profile, err.strip().splitlines()[-12:]))
    sub = "debug" if profile == "dev" else profile
    path = os.path.join(tdir, target, sub, bin_name) if target else os.path.join(tdir, sub, bin_name)
    if not os.path.exists(path):
        raise LayerInconclusive("harness binary missing after build: %s" % path)
    _built[key] = path
    return path


def run_tzmon(env, profile="release", scale=1.0, opts=None, replay=None, tier=None, threads=None, binary=None, wrapper=None, timeout=None, name=None, prop=None, extra_env=None, counts_distinct=False):
    prop = prop or env.prop
    tier = tier or env.tier
    binary = binary or build_harness(env, profile)
    fd, out = tempfile.mkstemp(prefix="tzmon-%s-" % prop, suffix=".json", dir=env.work)
    os.close(fd)
    cmd = list(wrapper or []) + [binary, prop, "--tier", tier, "--seed", str(env.seed), "--threads", str(threads or env.threads), "--scale", repr(scale), "--corpus", env.corpus, "--out", out]
    for k, v in sorted((opts or {}).items()):
        cmd += ["--opt", "%s=%s" % (k, v)]
    if replay:
        cmd += ["--replay", replay]
    e = base_env()
    e.update(extra_env or {})
    if timeout is None:
        timeout = 900 if tier == "quick" else 7200
    try:
        rc, so, se, wall = run(cmd, cwd=env.harness, env=e, timeout=timeout)
        lname = name or ("tzmon-%s" % profile)
        if rc != 0:
            os.path.exists(out) and os.unlink(out)
            if "TZMON-ALLOC-CAP" in se:
                # allocation above the hard cap: the allocator aborted the process on purpose
                return {"name": lname, "profile": profile, "evaluations": 0, "violations": [{"what": "allocation request above the hard cap (process aborted by the counting allocator)", "input": "see stderr", "expected": "allocation bounded by a small multiple of the input", "observed": se.strip()[-300:], "signature": "alloc-cap", "workload": 0, "index": 0, "seed": env.seed}], "replay_spec": None}
            raise LayerInconclusive("tzmon exited with status %s: %s" % (rc, se.strip()[-400:]))
        with open(out) as f:
            doc = json.load(f)
    finally:
        if os.path.exists(out):
            os.unlink(out)
    doc["name"] = lname
    doc["profile"] = profile
    doc["cmd"] = " ".join(os.path.relpath(c, env.here) if c.startswith(env.here) else c for c in cmd if not c.endswith(".json") and c != "--out")
    doc["replay_spec"] = {"kind": "tzmon", "profile": profile if not wrapper and not binary_is_special(binary, env) else "release", "opts": opts or {}, "tier": tier}
    doc["counts_distinct"] = counts_distinct
    inconc = list(doc.get("inconclusive", []))
    if not replay and scale >= 1.0 and doc.get("required_classes_missing"):
        inconc.append("required coverage classes with zero observations: %s" % ",".join(doc["required_classes_missing"]))
    if int(doc.get("evaluations", 0)) == 0 and not inconc:
        inconc.append("the monitor observed nothing")
    doc["inconclusive"] = inconc
    return doc


def binary_is_special(binary, env):
    return not binary.startswith(os.path.join(env.harness, "target", "release")) and not binary.startswith(os.path.join(env.harness, "target", "checked"))


def layer(name):
    def deco(fn):
        fn.layer_name = name
        return fn
    return deco


def tzmon_layers(env, profiles=("release", "checked"), opts=None):
    """The standard pair: what users ship (overflow wraps -> wrong answer seen by the oracle) and the
    checked build (overflow / debug assertion / unreachable -> panic event)."""
    out = []
    first = True
    for prof in profiles:
        def mk(prof=prof, first=first):
            @layer("tzmon-%s" % prof)
            def f():
                return run_tzmon(env, profile=prof, opts=opts, counts_distinct=first)
            return f
        out.append(mk())
        first = False
    return out


# ------------------------------------------------------------------------------------------------
# Miri slice: the same monitor, a small slice of its workload, under the UB / data-race interpreter

def miri_layer(env, scale, threads=1, prop=None, opts=None, seeds=None, name="miri", budget=None):
    @layer(name)
    def f():
        tdir = os.path.join(env.harness, "target-miri")
        fd, out = tempfile.mkstemp(prefix="miri-", suffix=".json", dir=env.work)
        os.close(fd)
        e = base_env()
        e["CARGO_TARGET_DIR"] = tdir
        flags = "-Zmiri-disable-isolation"
        if seeds:
            flags += " -Zmiri-many-seeds=%s" % seeds
        e["MIRIFLAGS"] = flags
        cmd = ["cargo", "+nightly", "miri", "run", "--offline", "--bin", "tzmon", "--", prop or env.prop, "--tier", "quick", "--seed", str(env.seed), "--threads", str(threads), "--scale", repr(scale), "--corpus", env.corpus, "--out", out]
        # wall-clock budget per workload: bounds the volume explored by the slice, never a verdict
        cmd += ["--budget", str(budget if budget is not None else (4 if env.quick() else 40))]
        for k, v in sorted((opts or {}).items()):
            cmd += ["--opt", "%s=%s" % (k, v)]
        try:
            rc, so, se, wall = run(cmd, cwd=env.harness, env=e, timeout=3000)
            ub = [ln for ln in se.splitlines() if "Undefined Behavior" in ln or "error: unsupported operation" in ln or "Data race detected" in ln or "memory leaked" in ln]
            if rc != 0 and not ub:
                if "error: could not compile" in se or "error[E" in se:
                    raise LayerInconclusive("miri build failed: %s" % se.strip()[-400:])
                raise LayerInconclusive("miri exited with status %s: %s" % (rc, se.strip()[-400:]))
            doc = {}
            if os.path.exists(out) and os.path.getsize(out) > 0:
                with open(out) as fh:
                    doc = json.load(fh)
        finally:
            if os.path.exists(out):
                os.unlink(out)
        doc.setdefault("evaluations", 0)
        doc.setdefault("violations", [])
        doc["name"] = name
        doc["profile"] = "miri"
        doc["replay_spec"] = {"kind": "tzmon", "profile": "release", "opts": opts or {}, "tier": "quick"}
        doc["sanitizer_reports"] = len(ub)
        for ln in ub[:5]:
            doc["violations"].append({"what": "Miri report", "input": "miri slice scale=%r seed=%d" % (scale, env.seed), "expected": "no undefined behaviour, data race or leak", "observed": ln.strip(), "signature": "miri: " + ln.strip()[:120], "workload": 0, "index": 0, "seed": env.seed})
        doc["cmd"] = "MIRIFLAGS='%s' cargo +nightly miri run --bin tzmon -- %s --scale %r --threads %d" % (flags, prop or env.prop, scale, threads)
        if int(doc["evaluations"]) == 0 and not ub:
            doc.setdefault("inconclusive", []).append("miri slice observed nothing")
        return doc
    return f


# ------------------------------------------------------------------------------------------------

def p_basic(rule_note=""):
    def layers(env):
        return tzmon_layers(env)
    return layers


COMMON_ASSUMPTIONS = [
    "the reference models (harness/src/model) implement the property statement; they are cross-validated at start-up and against each other, but they are hand-written",
    "verdict covers the executions listed under coverage only; inputs not executed are not covered",
    "x86_64-unknown-linux-gnu, rustc stable of this image; other targets (32-bit usize) are not exercised",
]

PROPS = {}


def reg(pid, layers, assumptions=None):
    PROPS[pid] = {"layers": layers, "assumptions": COMMON_ASSUMPTIONS + (assumptions or [])}


def std_layers(miri_scale):
    def f(env):
        ls = tzmon_layers(env)
        ls.append(miri_layer(env, miri_scale))
        return ls
    return f


reg("C01", std_layers(0.0007))
reg("C02", std_layers(0.0005))
reg("C16", std_layers(0.0005))
reg("C18", std_layers(0.02))
reg("C03", std_layers(0.002))
reg("C04", std_layers(0.002))
reg("C05", std_layers(0.0005))
reg("C06", std_layers(0.0005))
reg("C11", std_layers(0.002))
reg("C12", std_layers(0.003))
reg("C17", std_layers(0.0005))
reg("C13", std_layers(0.0005))
reg("C08", std_layers(0.002))
reg("C09", std_layers(0.002))
reg("C20", std_layers(0.02))
reg("C14", std_layers(0.0005))
