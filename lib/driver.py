"""Driver logic: builds, layers, verdict, evidence, known findings, replay."""
import glob
import hashlib
import json
import os
import shutil
import subprocess
import sys
import time

import layers as L

LEVEL = "exploration"


class Inconclusive(Exception):
    pass


def load_known(here):
    p = os.path.join(here, "known_findings.json")
    if not os.path.exists(p):
        return {"open": [], "fixed": []}
    with open(p) as f:
        return json.load(f)


def parse_args(argv):
    a = {"tier": os.environ.get("VERIF_TIER", "quick"), "replay": None, "seed": int(os.environ.get("VERIF_SEED", "1") or 1), "prop": None, "only": None}
    i = 0
    while i < len(argv):
        x = argv[i]
        if x == "--tier":
            a["tier"] = argv[i + 1]
            i += 2
        elif x == "--replay":
            a["replay"] = argv[i + 1]
            i += 2
        elif x == "--seed":
            a["seed"] = int(argv[i + 1])
            i += 2
        elif x == "--only":  # run only the named layer(s), comma separated (debugging aid)
            a["only"] = argv[i + 1].split(",")
            i += 2
        elif a["prop"] is None:
            a["prop"] = x
            i += 1
        else:
            raise SystemExit("unknown argument %r" % x)
    if a["tier"] not in ("quick", "thorough"):
        raise SystemExit("tier must be quick or thorough")
    if a["prop"] is None:
        raise SystemExit(__doc__)
    return a


def write_replay(here, prop, seed, layer, v, n):
    d = os.path.join(here, "replays")
    os.makedirs(d, exist_ok=True)
    path = os.path.join(d, "%s-%d-%d.json" % (prop, seed, n))
    doc = dict(v)
    doc.update({"property": prop, "layer": layer.get("name"), "profile": layer.get("profile"), "replay_spec": layer.get("replay_spec"), "seed": v.get("seed", seed)})
    with open(path, "w") as f:
        json.dump(doc, f, indent=1)
    return path


def main(here, argv):
    a = parse_args(argv)
    prop, tier, seed = a["prop"], a["tier"], a["seed"]
    t0 = time.time()
    env = L.Env(here, prop, tier, seed)
    if a["replay"]:
        return replay(env, a["replay"])
    spec = L.PROPS.get(prop)
    if spec is None:
        print("INCONCLUSIVE property=%s reason=no-such-check" % prop)
        return 2
    results = []
    inconclusive = []
    for layer_fn in spec["layers"](env):
        name = getattr(layer_fn, "layer_name", "layer")
        if a["only"] and name not in a["only"]:
            continue
        if name in os.environ.get("VERIF_SKIP_LAYERS", "").split(","):
            continue  # development aid (selftest): e.g. VERIF_SKIP_LAYERS=miri
        try:
            r = layer_fn()
        except L.Skip as e:
            results.append({"name": name, "skipped": str(e), "evaluations": 0, "violations": []})
            continue
        except L.LayerInconclusive as e:
            inconclusive.append("%s: %s" % (name, e))
            continue
        results.append(r)
        for msg in r.get("inconclusive", []):
            inconclusive.append("%s: %s" % (r.get("name"), msg))
    known = load_known(here)
    open_sigs = {}
    for k in known.get("open", []):
        if k.get("property") == prop:
            open_sigs[k["signature"]] = k
    viol_lines = []
    known_lines = []
    nviol = 0
    seen_known = set()
    n = 0
    for r in results:
        for v in r.get("violations", []):
            sig = v.get("signature", v.get("what", ""))
            if sig in open_sigs:
                if sig not in seen_known:
                    seen_known.add(sig)
                    known_lines.append("KNOWN-FINDING: property=%s %s" % (prop, open_sigs[sig].get("what", sig)))
                continue
            nviol += 1
            if len(viol_lines) < 10:
                n += 1
                path = write_replay(here, prop, seed, r, v, n)
                viol_lines.append("VIOLATION property=%s replay=%s" % (prop, path))
                sys.stderr.write("  [%s] %s\n    input:    %s\n    expected: %s\n    observed: %s\n" % (r.get("name"), v.get("what"), v.get("input"), v.get("expected"), v.get("observed")))
        # violations that a layer counted but did not list individually
        extra_total = int(r.get("violations_total", 0)) - len(r.get("violations", []))
        if extra_total > 0:
            nviol += 0  # already represented by the listed ones
    wall = time.time() - t0
    write_evidence(env, spec, results, inconclusive, nviol, known_lines, wall, partial=bool(a["only"]) or bool(os.environ.get("VERIF_SKIP_LAYERS")))
    for ln in known_lines:
        print(ln)
    if nviol > 0:
        for ln in viol_lines:
            print(ln)
        return 1
    if inconclusive:
        for msg in inconclusive:
            print("INCONCLUSIVE property=%s reason=%s" % (prop, msg.replace("\n", " ")[:400]))
        return 2
    total = sum(int(r.get("evaluations", 0)) for r in results)
    print("HELD property=%s tier=%s seed=%d evaluations=%d layers=%s wall=%.1fs" % (prop, tier, seed, total, ",".join(r["name"] for r in results if not r.get("skipped")), wall))
    return 0


def write_evidence(env, spec, results, inconclusive, nviol, known_lines, wall, partial=False):
    evaluations = sum(int(r.get("evaluations", 0)) for r in results)
    # distinct: the main (first tzmon) layer counts distinct inputs; other layers re-run slices of the
    # same generators under another build, so their inputs are not added again
    distinct = 0
    for r in results:
        if r.get("counts_distinct", False):
            distinct += int(r.get("distinct_nontrivial", 0))
    samples = []
    for r in results:
        for s in r.get("samples", [])[:6]:
            samples.append({"layer": r["name"], "case": s})
    layer_docs = []
    for r in results:
        d = {k: r[k] for k in r if k in ("name", "profile", "evaluations", "distinct_nontrivial", "classes", "ops", "wall_s", "skipped", "unspecified_cases", "c14_values_checked", "panics_caught", "exhaustive", "notes", "extra", "cmd", "violations_total", "required_classes_missing", "sanitizer_reports", "scale")}
        layer_docs.append(d)
    main_r = next((r for r in results if r.get("counts_distinct")), results[0] if results else {})
    cov = {
        "evaluations": evaluations,
        "distinct_nontrivial": distinct,
        "rule": main_r.get("rule", spec.get("rule", "")),
        "samples": samples if samples else [{"note": "no case was executed"}],
        "exhaustive": bool(main_r.get("exhaustive", False)),
        "classes": main_r.get("classes", {}),
        "ops": main_r.get("ops", {}),
        "c14_values_checked": sum(int(r.get("c14_values_checked", 0)) for r in results),
        "layers": layer_docs,
        "inconclusive": inconclusive,
        "known_findings_reported": known_lines,
    }
    doc = {
        "property_id": env.prop,
        "tier": env.tier,
        "seed": env.seed,
        "level": LEVEL,
        "coverage": cov,
        "assumptions": spec.get("assumptions", []),
        "wall_s": round(wall, 3),
        "violations": nviol,
    }
    d = os.path.join(env.here, "evidence")
    if partial:
        # a run restricted to some layers (development aid) must not replace the evidence of a full run
        d = os.path.join(env.here, "work", "partial-evidence")
    os.makedirs(d, exist_ok=True)
    tmp = os.path.join(d, ".%s.json.tmp" % env.prop)
    with open(tmp, "w") as f:
        json.dump(doc, f, indent=1, sort_keys=True)
    os.replace(tmp, os.path.join(d, "%s.json" % env.prop))


def replay(env, path):
    with open(path) as f:
        doc = json.load(f)
    prop = doc.get("property", env.prop)
    spec = doc.get("replay_spec")
    if not spec or spec.get("kind") != "tzmon":
        print("INCONCLUSIVE property=%s reason=replay-not-supported-for-layer-%s" % (prop, doc.get("layer")))
        return 2
    env2 = L.Env(env.here, prop, doc.get("tier", env.tier), int(doc.get("seed", env.seed)))
    try:
        r = L.run_tzmon(env2, profile=spec.get("profile", "release"), replay="%d:%d" % (int(doc["workload"]), int(doc["index"])), opts=spec.get("opts", {}), tier=spec.get("tier", env2.tier))
    except (L.LayerInconclusive, L.Skip) as e:
        print("INCONCLUSIVE property=%s reason=%s" % (prop, e))
        return 2
    if r.get("violations"):
        for v in r["violations"]:
            sys.stderr.write("  %s\n    input:    %s\n    expected: %s\n    observed: %s\n" % (v.get("what"), v.get("input"), v.get("expected"), v.get("observed")))
        print("VIOLATION property=%s replay=%s" % (prop, path))
        return 1
    print("REPLAY-HELD property=%s replay=%s (the recorded case no longer violates)" % (prop, path))
    return 0
