//! Auto-trait assertions for every public type of tz-rs (C15, observation (f)).
//! The crate's own build is the verdict: error E0277 on one of these lines = the type lost the
//! property; any other build error = inconclusive.
#![cfg_attr(feature = "freeze", feature(freeze))]
#![allow(dead_code)]

use std::panic::{RefUnwindSafe, UnwindSafe};

#[cfg(feature = "freeze")]
fn shared<T: Send + Sync + Unpin + core::marker::Freeze>() {}
#[cfg(not(feature = "freeze"))]
fn shared<T: Send + Sync + Unpin>() {}

fn unwind<T: UnwindSafe + RefUnwindSafe>() {}

macro_rules! all {
    ($($t:ty),* $(,)?) => { $( shared::<$t>(); unwind::<$t>(); )* };
}
macro_rules! shared_only {
    ($($t:ty),* $(,)?) => { $( shared::<$t>(); )* };
}

pub fn assertions() {
    all!(
        tz::DateTime,
        tz::UtcDateTime,
        tz::datetime::FoundDateTimeKind,
        tz::datetime::FoundDateTimeList,
        tz::TimeZone,
        tz::TimeZoneRef<'static>,
        tz::TimeZoneSettings<'static>,
        tz::LocalTimeType,
        tz::timezone::Transition,
        tz::timezone::LeapSecond,
        tz::timezone::TransitionRule,
        tz::timezone::AlternateTime,
        tz::timezone::RuleDay,
        tz::timezone::Julian0WithLeap,
        tz::timezone::Julian1WithoutLeap,
        tz::timezone::MonthWeekDay,
        tz::TzError,
        tz::error::datetime::DateTimeError,
        tz::error::timezone::LocalTimeTypeError,
        tz::error::timezone::TransitionRuleError,
        tz::error::timezone::TimeZoneError,
        tz::error::parse::ParseDataError,
        tz::error::parse::TzStringError,
        tz::error::parse::TzFileError,
    );
    // legitimately not UnwindSafe: holds `&mut [..]` / `Box<dyn Error + Send + Sync>`
    shared_only!(tz::datetime::FoundDateTimeListRefMut<'static>, tz::Error);
}

/// names of the public types asserted above (the driver checks that no `pub struct` / `pub enum`
/// of the sources is missing from this list; a missing one makes the run inconclusive)
pub const COVERED: &[&str] = &[
    "DateTime",
    "UtcDateTime",
    "FoundDateTimeKind",
    "FoundDateTimeList",
    "FoundDateTimeListRefMut",
    "TimeZone",
    "TimeZoneRef",
    "TimeZoneSettings",
    "LocalTimeType",
    "Transition",
    "LeapSecond",
    "TransitionRule",
    "AlternateTime",
    "RuleDay",
    "Julian0WithLeap",
    "Julian1WithoutLeap",
    "MonthWeekDay",
    "Error",
    "TzError",
    "DateTimeError",
    "LocalTimeTypeError",
    "TransitionRuleError",
    "TimeZoneError",
    "ParseDataError",
    "TzStringError",
    "TzFileError",
];
