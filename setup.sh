#!/bin/sh
# Builds the monitor harness (two profiles) against /repo's working tree, offline, from files on disk.
set -e
cd "$(dirname "$0")"
export CARGO_NET_OFFLINE=true
mkdir -p work evidence replays
( cd harness && cargo build --offline --release --bin tzmon && cargo build --offline --profile checked --bin tzmon )
# warm the Miri sysroot + harness build (used by the sanitizer slices); failure here is not fatal:
# the slices report INCONCLUSIVE themselves if the interpreter is unavailable
( cd harness && CARGO_TARGET_DIR=target-miri MIRIFLAGS=-Zmiri-disable-isolation timeout 1200 cargo +nightly miri run --offline --bin tzmon -- C16 --tier quick --scale 0.00001 --threads 1 --budget 1 --out /dev/null >/dev/null 2>&1 ) || echo "setup: miri warm-up failed (slices will report inconclusive)"
echo "setup: ok"
