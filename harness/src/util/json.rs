//! Minimal JSON value, writer and parser (std only; no crates can be fetched in the sandbox).

use std::collections::BTreeMap;
use std::fmt::Write;

#[derive(Debug, Clone, PartialEq)]
pub enum Json {
    Null,
    Bool(bool),
    Int(i128),
    Num(f64),
    Str(String),
    Arr(Vec<Json>),
    Obj(BTreeMap<String, Json>),
}

impl Json {
    pub fn obj() -> Json {
        Json::Obj(BTreeMap::new())
    }
    pub fn set(mut self, k: &str, v: impl Into<Json>) -> Json {
        if let Json::Obj(m) = &mut self {
            m.insert(k.to_string(), v.into());
        }
        self
    }
    pub fn put(&mut self, k: &str, v: impl Into<Json>) {
        if let Json::Obj(m) = self {
            m.insert(k.to_string(), v.into());
        }
    }
    pub fn get(&self, k: &str) -> Option<&Json> {
        match self {
            Json::Obj(m) => m.get(k),
            _ => None,
        }
    }
    pub fn as_i128(&self) -> Option<i128> {
        match self {
            Json::Int(i) => Some(*i),
            Json::Num(f) => Some(*f as i128),
            _ => None,
        }
    }
    pub fn as_i64(&self) -> Option<i64> {
        self.as_i128().map(|x| x as i64)
    }
    pub fn as_str(&self) -> Option<&str> {
        match self {
            Json::Str(s) => Some(s),
            _ => None,
        }
    }
    pub fn as_arr(&self) -> Option<&[Json]> {
        match self {
            Json::Arr(a) => Some(a),
            _ => None,
        }
    }
    pub fn as_bool(&self) -> Option<bool> {
        match self {
            Json::Bool(b) => Some(*b),
            _ => None,
        }
    }

    pub fn to_string(&self) -> String {
        let mut s = String::new();
        self.write(&mut s);
        s
    }

    fn write(&self, out: &mut String) {
        match self {
            Json::Null => out.push_str("null"),
            Json::Bool(b) => out.push_str(if *b { "true" } else { "false" }),
            Json::Int(i) => {
                let _ = write!(out, "{}", i);
            }
            Json::Num(f) => {
                if f.is_finite() {
                    let _ = write!(out, "{}", f);
                } else {
                    out.push_str("null");
                }
            }
            Json::Str(s) => write_str(s, out),
            Json::Arr(a) => {
                out.push('[');
                for (i, v) in a.iter().enumerate() {
                    if i > 0 {
                        out.push(',');
                    }
                    v.write(out);
                }
                out.push(']');
            }
            Json::Obj(m) => {
                out.push('{');
                for (i, (k, v)) in m.iter().enumerate() {
                    if i > 0 {
                        out.push(',');
                    }
                    write_str(k, out);
                    out.push(':');
                    v.write(out);
                }
                out.push('}');
            }
        }
    }

    pub fn parse(s: &str) -> Result<Json, String> {
        let b = s.as_bytes();
        let mut p = 0usize;
        let v = parse_value(b, &mut p)?;
        skip_ws(b, &mut p);
        if p != b.len() {
            return Err(format!("trailing data at {}", p));
        }
        Ok(v)
    }
}

fn write_str(s: &str, out: &mut String) {
    out.push('"');
    for c in s.chars() {
        match c {
            '"' => out.push_str("\\\""),
            '\\' => out.push_str("\\\\"),
            '\n' => out.push_str("\\n"),
            '\r' => out.push_str("\\r"),
            '\t' => out.push_str("\\t"),
            c if (c as u32) < 0x20 => {
                let _ = write!(out, "\\u{:04x}", c as u32);
            }
            c => out.push(c),
        }
    }
    out.push('"');
}

fn skip_ws(b: &[u8], p: &mut usize) {
    while *p < b.len() && matches!(b[*p], b' ' | b'\n' | b'\r' | b'\t') {
        *p += 1;
    }
}

fn parse_value(b: &[u8], p: &mut usize) -> Result<Json, String> {
    skip_ws(b, p);
    if *p >= b.len() {
        return Err("eof".into());
    }
    match b[*p] {
        b'{' => {
            *p += 1;
            let mut m = BTreeMap::new();
            skip_ws(b, p);
            if *p < b.len() && b[*p] == b'}' {
                *p += 1;
                return Ok(Json::Obj(m));
            }
            loop {
                skip_ws(b, p);
                let k = match parse_value(b, p)? {
                    Json::Str(s) => s,
                    _ => return Err("key".into()),
                };
                skip_ws(b, p);
                if *p >= b.len() || b[*p] != b':' {
                    return Err("colon".into());
                }
                *p += 1;
                let v = parse_value(b, p)?;
                m.insert(k, v);
                skip_ws(b, p);
                if *p >= b.len() {
                    return Err("eof".into());
                }
                match b[*p] {
                    b',' => *p += 1,
                    b'}' => {
                        *p += 1;
                        return Ok(Json::Obj(m));
                    }
                    _ => return Err("obj sep".into()),
                }
            }
        }
        b'[' => {
            *p += 1;
            let mut a = Vec::new();
            skip_ws(b, p);
            if *p < b.len() && b[*p] == b']' {
                *p += 1;
                return Ok(Json::Arr(a));
            }
            loop {
                a.push(parse_value(b, p)?);
                skip_ws(b, p);
                if *p >= b.len() {
                    return Err("eof".into());
                }
                match b[*p] {
                    b',' => *p += 1,
                    b']' => {
                        *p += 1;
                        return Ok(Json::Arr(a));
                    }
                    _ => return Err("arr sep".into()),
                }
            }
        }
        b'"' => {
            *p += 1;
            let mut s = String::new();
            while *p < b.len() {
                let c = b[*p];
                *p += 1;
                match c {
                    b'"' => return Ok(Json::Str(s)),
                    b'\\' => {
                        if *p >= b.len() {
                            return Err("eof".into());
                        }
                        let e = b[*p];
                        *p += 1;
                        match e {
                            b'n' => s.push('\n'),
                            b'r' => s.push('\r'),
                            b't' => s.push('\t'),
                            b'b' => s.push('\u{8}'),
                            b'f' => s.push('\u{c}'),
                            b'u' => {
                                if *p + 4 > b.len() {
                                    return Err("eof".into());
                                }
                                let h = std::str::from_utf8(&b[*p..*p + 4]).map_err(|e| e.to_string())?;
                                let cp = u32::from_str_radix(h, 16).map_err(|e| e.to_string())?;
                                *p += 4;
                                s.push(char::from_u32(cp).unwrap_or('\u{fffd}'));
                            }
                            other => s.push(other as char),
                        }
                    }
                    _ => {
                        // re-decode utf-8 sequences byte-wise
                        let start = *p - 1;
                        let mut end = *p;
                        while end < b.len() && (b[end] & 0xC0) == 0x80 {
                            end += 1;
                        }
                        s.push_str(std::str::from_utf8(&b[start..end]).map_err(|e| e.to_string())?);
                        *p = end;
                    }
                }
            }
            Err("unterminated string".into())
        }
        b't' if b[*p..].starts_with(b"true") => {
            *p += 4;
            Ok(Json::Bool(true))
        }
        b'f' if b[*p..].starts_with(b"false") => {
            *p += 5;
            Ok(Json::Bool(false))
        }
        b'n' if b[*p..].starts_with(b"null") => {
            *p += 4;
            Ok(Json::Null)
        }
        _ => {
            let start = *p;
            while *p < b.len() && matches!(b[*p], b'-' | b'+' | b'.' | b'e' | b'E' | b'0'..=b'9') {
                *p += 1;
            }
            let t = std::str::from_utf8(&b[start..*p]).map_err(|e| e.to_string())?;
            if let Ok(i) = t.parse::<i128>() {
                Ok(Json::Int(i))
            } else {
                t.parse::<f64>().map(Json::Num).map_err(|e| format!("number {:?}: {}", t, e))
            }
        }
    }
}

impl From<bool> for Json {
    fn from(v: bool) -> Json {
        Json::Bool(v)
    }
}
impl From<&str> for Json {
    fn from(v: &str) -> Json {
        Json::Str(v.to_string())
    }
}
impl From<String> for Json {
    fn from(v: String) -> Json {
        Json::Str(v)
    }
}
impl From<f64> for Json {
    fn from(v: f64) -> Json {
        Json::Num(v)
    }
}
macro_rules! from_int {
    ($($t:ty),*) => {$(impl From<$t> for Json { fn from(v: $t) -> Json { Json::Int(v as i128) } })*};
}
from_int!(i8, i16, i32, i64, i128, u8, u16, u32, u64, usize, isize);
impl<T: Into<Json>> From<Vec<T>> for Json {
    fn from(v: Vec<T>) -> Json {
        Json::Arr(v.into_iter().map(Into::into).collect())
    }
}
impl<T: Into<Json>> From<Option<T>> for Json {
    fn from(v: Option<T>) -> Json {
        match v {
            Some(x) => x.into(),
            None => Json::Null,
        }
    }
}
