//! Counting global allocator: per-thread live / peak / total bytes and the largest single request.
//! A request above HARD_CAP is reported on stderr (without allocating) and the process aborts; the
//! driver collects such aborts from the exit status (allocation failure escapes catch_unwind).

use std::alloc::{GlobalAlloc, Layout, System};
use std::cell::Cell;
use std::sync::atomic::{AtomicUsize, Ordering};

pub struct Counting;

pub static HARD_CAP: AtomicUsize = AtomicUsize::new(usize::MAX);

thread_local! {
    static LIVE: Cell<usize> = const { Cell::new(0) };
    static PEAK: Cell<usize> = const { Cell::new(0) };
    static TOTAL: Cell<usize> = const { Cell::new(0) };
    static LARGEST: Cell<usize> = const { Cell::new(0) };
    static NALLOC: Cell<usize> = const { Cell::new(0) };
}

#[inline]
fn on_alloc(size: usize) {
    let _ = LIVE.try_with(|l| {
        let v = l.get().wrapping_add(size);
        l.set(v);
        let _ = PEAK.try_with(|p| {
            if v > p.get() {
                p.set(v)
            }
        });
    });
    let _ = TOTAL.try_with(|t| t.set(t.get().wrapping_add(size)));
    let _ = NALLOC.try_with(|t| t.set(t.get().wrapping_add(1)));
    let _ = LARGEST.try_with(|t| {
        if size > t.get() {
            t.set(size)
        }
    });
}

#[inline]
fn on_free(size: usize) {
    let _ = LIVE.try_with(|l| l.set(l.get().wrapping_sub(size)));
}

fn cap_exceeded(size: usize) -> ! {
    // no allocation here: fixed buffer, raw write(2)
    let mut buf = [0u8; 64];
    let prefix = b"TZMON-ALLOC-CAP ";
    buf[..prefix.len()].copy_from_slice(prefix);
    let mut n = size;
    let mut digits = [0u8; 24];
    let mut k = 0;
    if n == 0 {
        digits[0] = b'0';
        k = 1;
    }
    while n > 0 {
        digits[k] = b'0' + (n % 10) as u8;
        n /= 10;
        k += 1;
    }
    let mut p = prefix.len();
    while k > 0 {
        k -= 1;
        buf[p] = digits[k];
        p += 1;
    }
    buf[p] = b'\n';
    p += 1;
    extern "C" {
        fn write(fd: i32, buf: *const u8, n: usize) -> isize;
    }
    unsafe {
        write(2, buf.as_ptr(), p);
    }
    std::process::abort()
}

unsafe impl GlobalAlloc for Counting {
    unsafe fn alloc(&self, layout: Layout) -> *mut u8 {
        if layout.size() > HARD_CAP.load(Ordering::Relaxed) {
            cap_exceeded(layout.size());
        }
        let p = System.alloc(layout);
        if !p.is_null() {
            on_alloc(layout.size());
        }
        p
    }
    unsafe fn dealloc(&self, ptr: *mut u8, layout: Layout) {
        on_free(layout.size());
        System.dealloc(ptr, layout)
    }
    unsafe fn alloc_zeroed(&self, layout: Layout) -> *mut u8 {
        if layout.size() > HARD_CAP.load(Ordering::Relaxed) {
            cap_exceeded(layout.size());
        }
        let p = System.alloc_zeroed(layout);
        if !p.is_null() {
            on_alloc(layout.size());
        }
        p
    }
    unsafe fn realloc(&self, ptr: *mut u8, layout: Layout, new_size: usize) -> *mut u8 {
        if new_size > HARD_CAP.load(Ordering::Relaxed) {
            cap_exceeded(new_size);
        }
        let p = System.realloc(ptr, layout, new_size);
        if !p.is_null() {
            on_free(layout.size());
            on_alloc(new_size);
        }
        p
    }
}

#[derive(Clone, Copy, Debug, Default)]
pub struct Snapshot {
    pub live: usize,
    pub total: usize,
    pub nalloc: usize,
}

/// Start a measurement window on this thread: peak is reset to the current live size.
pub fn begin() -> Snapshot {
    let live = LIVE.with(|l| l.get());
    PEAK.with(|p| p.set(live));
    LARGEST.with(|p| p.set(0));
    Snapshot { live, total: TOTAL.with(|t| t.get()), nalloc: NALLOC.with(|t| t.get()) }
}

#[derive(Clone, Copy, Debug, Default)]
pub struct Usage {
    /// peak live bytes above the level at `begin`
    pub peak: usize,
    pub total: usize,
    pub largest: usize,
    pub nalloc: usize,
    /// live bytes still held at `end` above the level at `begin` (returned values)
    pub retained: usize,
}

pub fn end(s: Snapshot) -> Usage {
    Usage {
        peak: PEAK.with(|p| p.get()).saturating_sub(s.live),
        total: TOTAL.with(|t| t.get()).wrapping_sub(s.total),
        largest: LARGEST.with(|t| t.get()),
        nalloc: NALLOC.with(|t| t.get()).wrapping_sub(s.nalloc),
        retained: LIVE.with(|l| l.get()).saturating_sub(s.live),
    }
}
