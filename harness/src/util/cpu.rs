//! CPU time of the calling thread (verdicts on "unbounded work" never use wall-clock).

#[repr(C)]
struct Timespec {
    tv_sec: i64,
    tv_nsec: i64,
}

extern "C" {
    fn clock_gettime(clk: i32, ts: *mut Timespec) -> i32;
}

const CLOCK_THREAD_CPUTIME_ID: i32 = 3;

/// nanoseconds of CPU time consumed by this thread
pub fn thread_cpu_ns() -> u64 {
    if cfg!(miri) {
        return 0;
    }
    let mut ts = Timespec { tv_sec: 0, tv_nsec: 0 };
    let r = unsafe { clock_gettime(CLOCK_THREAD_CPUTIME_ID, &mut ts) };
    if r != 0 {
        return 0;
    }
    ts.tv_sec as u64 * 1_000_000_000 + ts.tv_nsec as u64
}

extern "C" {
    fn syscall(num: i64, ...) -> i64;
    fn sysconf(name: i32) -> i64;
}

/// kernel thread id of the calling thread (Linux x86_64: SYS_gettid = 186)
pub fn gettid() -> u64 {
    if cfg!(miri) {
        return 0;
    }
    (unsafe { syscall(186) }) as u64
}

/// CPU time (user + system) consumed so far by the thread `tid` of this process, read from procfs; `None` when
/// the thread is gone. Resolution: one clock tick.
pub fn cpu_ns_of_tid(tid: u64) -> Option<u64> {
    let text = std::fs::read_to_string(format!("/proc/self/task/{}/stat", tid)).ok()?;
    // the command name (field 2) is parenthesised and may contain spaces: fields are counted after the last ')'
    let rest = &text[text.rfind(')')? + 1..];
    let f: Vec<&str> = rest.split_whitespace().collect();
    // rest starts at field 3 (state): utime = field 14 -> index 11, stime = field 15 -> index 12
    let utime: u64 = f.get(11)?.parse().ok()?;
    let stime: u64 = f.get(12)?.parse().ok()?;
    let hz = (unsafe { sysconf(2) }).max(1) as u64; // _SC_CLK_TCK
    Some((utime + stime) * 1_000_000_000 / hz)
}

/// (scheduler state letter, CPU time) of the thread `tid` of this process; `None` when the thread is gone
pub fn state_of_tid(tid: u64) -> Option<(char, u64)> {
    let text = std::fs::read_to_string(format!("/proc/self/task/{}/stat", tid)).ok()?;
    let rest = &text[text.rfind(')')? + 1..];
    let f: Vec<&str> = rest.split_whitespace().collect();
    let st = f.first()?.chars().next()?;
    let utime: u64 = f.get(11)?.parse().ok()?;
    let stime: u64 = f.get(12)?.parse().ok()?;
    Some((st, utime + stime))
}
