//! CPU time of the calling thread (verdicts on "unbounded work" never use wall-clock).

#[repr(C)]
struct Timespec {
    tv_sec: i64,
    tv_nsec: i64,
}

extern "C" {
    fn clock_gettime(clk: i32, ts: *mut Timespec) -> i32;
}

const CLOCK_THREAD_CPUTIME_ID: i32 = 3;

/// nanoseconds of CPU time consumed by this thread
pub fn thread_cpu_ns() -> u64 {
    if cfg!(miri) {
        return 0;
    }
    let mut ts = Timespec { tv_sec: 0, tv_nsec: 0 };
    let r = unsafe { clock_gettime(CLOCK_THREAD_CPUTIME_ID, &mut ts) };
    if r != 0 {
        return 0;
    }
    ts.tv_sec as u64 * 1_000_000_000 + ts.tv_nsec as u64
}
