//! Seeded generator (splitmix64 seeding + xoshiro256**). Every case derives its own stream from
//! (seed, workload id, case index), so a case is replayable from those three numbers alone.

#[derive(Clone, Debug)]
pub struct Rng {
    s: [u64; 4],
    /// coverage-guided mode (libFuzzer target `model`): decisions are read from this byte string while it lasts
    /// (one octet for a choice among <= 256, two for <= 65536, eight otherwise), then from the generator seeded
    /// with its hash. `None` in every registered tzmon workload.
    tape: Option<(std::sync::Arc<[u8]>, usize)>,
}

fn splitmix(x: &mut u64) -> u64 {
    *x = x.wrapping_add(0x9E3779B97F4A7C15);
    let mut z = *x;
    z = (z ^ (z >> 30)).wrapping_mul(0xBF58476D1CE4E5B9);
    z = (z ^ (z >> 27)).wrapping_mul(0x94D049BB133111EB);
    z ^ (z >> 31)
}

pub fn mix(a: u64, b: u64) -> u64 {
    let mut x = a ^ b.wrapping_mul(0xD6E8FEB86659FD93).rotate_left(23);
    splitmix(&mut x)
}

impl Rng {
    pub fn new(seed: u64) -> Rng {
        let mut x = seed;
        Rng { s: [splitmix(&mut x), splitmix(&mut x), splitmix(&mut x), splitmix(&mut x)], tape: None }
    }
    pub fn from_bytes(data: &[u8]) -> Rng {
        let mut h = 0xcbf29ce484222325u64;
        for &b in data {
            h = (h ^ b as u64).wrapping_mul(0x100000001b3);
        }
        let mut r = Rng::new(h);
        r.tape = Some((std::sync::Arc::from(data), 0));
        r
    }
    #[cold]
    fn tape_take(&mut self, n: usize) -> Option<u64> {
        let (t, pos) = self.tape.as_mut()?;
        if *pos + n > t.len() {
            self.tape = None;
            return None;
        }
        let mut v = 0u64;
        for k in 0..n {
            v |= (t[*pos + k] as u64) << (8 * k);
        }
        *pos += n;
        Some(v)
    }
    pub fn for_case(seed: u64, workload: u64, index: u64) -> Rng {
        Rng::new(mix(mix(seed, workload), index))
    }
    #[inline]
    pub fn next(&mut self) -> u64 {
        if self.tape.is_some() {
            if let Some(v) = self.tape_take(8) {
                return v;
            }
        }
        let r = self.s[1].wrapping_mul(5).rotate_left(7).wrapping_mul(9);
        let t = self.s[1] << 17;
        self.s[2] ^= self.s[0];
        self.s[3] ^= self.s[1];
        self.s[1] ^= self.s[2];
        self.s[0] ^= self.s[3];
        self.s[2] ^= t;
        self.s[3] = self.s[3].rotate_left(45);
        r
    }
    /// uniform in [0, n)
    #[inline]
    pub fn below(&mut self, n: u64) -> u64 {
        if n == 0 {
            return 0;
        }
        if self.tape.is_some() {
            let w = if n <= 256 {
                1
            } else if n <= 65536 {
                2
            } else {
                8
            };
            if let Some(v) = self.tape_take(w) {
                return v % n;
            }
        }
        ((self.next() as u128 * n as u128) >> 64) as u64
    }
    /// uniform in [lo, hi] (inclusive)
    #[inline]
    pub fn range(&mut self, lo: i64, hi: i64) -> i64 {
        debug_assert!(lo <= hi);
        let span = (hi as i128 - lo as i128 + 1) as u128;
        if span > u64::MAX as u128 {
            return self.next() as i64;
        }
        (lo as i128 + self.below(span as u64) as i128) as i64
    }
    #[inline]
    pub fn chance(&mut self, num: u64, den: u64) -> bool {
        self.below(den) < num
    }
    #[inline]
    pub fn pick<'a, T>(&mut self, xs: &'a [T]) -> &'a T {
        &xs[self.below(xs.len() as u64) as usize]
    }
    pub fn i64_any(&mut self) -> i64 {
        self.next() as i64
    }
    /// log-uniform magnitude, random sign
    pub fn i64_log(&mut self) -> i64 {
        let bits = self.below(64) as u32;
        let v = if bits == 0 { 0 } else { (self.next() >> (64 - bits)) as i64 };
        if self.chance(1, 2) {
            v
        } else {
            v.wrapping_neg()
        }
    }
}
