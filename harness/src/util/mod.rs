pub mod alloc;
pub mod cpu;
pub mod json;
pub mod rng;
