//! tzmon: runtime monitors for tz-rs (properties C01..C20 of /verif/properties.jsonl).
pub mod core;
pub mod facade;
pub mod fuzzcase;
pub mod gen;
pub mod model;
pub mod mon;
pub mod util;

#[global_allocator]
static GLOBAL: util::alloc::Counting = util::alloc::Counting;
