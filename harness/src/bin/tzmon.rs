//! CLI used by the driver: tzmon <PROPERTY> [--tier quick|thorough] [--seed N] [--threads N]
//! [--scale F] [--replay WL:IDX] [--corpus DIR] [--out PATH] [--opt k=v]...
//! Exit status: 0 = ran to completion (verdict is in the result document), 3 = harness error.

use std::collections::BTreeMap;
use std::time::Instant;
use tzmon::core::{install_panic_hook, Ctx, Tier};

fn main() {
    let args: Vec<String> = std::env::args().collect();
    if args.len() < 2 {
        eprintln!("usage: tzmon <PROPERTY> [--tier quick|thorough] [--seed N] [--threads N] [--scale F] [--replay WL:IDX] [--corpus DIR] [--out PATH] [--opt k=v]");
        std::process::exit(3);
    }
    let property = args[1].clone();
    let mut ctx = Ctx { tier: Tier::Quick, seed: 1, threads: std::thread::available_parallelism().map(|n| n.get()).unwrap_or(4), scale: 1.0, replay: None, corpus: String::new(), opts: BTreeMap::new(), budget_s: None };
    let mut out: Option<String> = None;
    let mut i = 2;
    while i < args.len() {
        let a = args[i].as_str();
        let v = args.get(i + 1).cloned().unwrap_or_default();
        match a {
            "--tier" => ctx.tier = if v == "thorough" { Tier::Thorough } else { Tier::Quick },
            "--seed" => ctx.seed = v.parse().unwrap_or(1),
            "--threads" => ctx.threads = v.parse().unwrap_or(1),
            "--scale" => ctx.scale = v.parse().unwrap_or(1.0),
            "--corpus" => ctx.corpus = v.clone(),
            "--budget" => ctx.budget_s = v.parse().ok(),
            "--out" => out = Some(v.clone()),
            "--replay" => {
                let mut it = v.split(':');
                let wl = it.next().and_then(|x| x.parse().ok());
                let idx = it.next().and_then(|x| x.parse().ok());
                match (wl, idx) {
                    (Some(w), Some(x)) => ctx.replay = Some((w, x)),
                    _ => {
                        eprintln!("bad --replay {}", v);
                        std::process::exit(3);
                    }
                }
            }
            "--opt" => {
                if let Some((k, val)) = v.split_once('=') {
                    ctx.opts.insert(k.to_string(), val.to_string());
                } else {
                    ctx.opts.insert(v.clone(), "1".into());
                }
            }
            _ => {
                eprintln!("unknown argument {}", a);
                std::process::exit(3);
            }
        }
        i += 2;
    }
    if let Some(v) = ctx.opts.get("hang_cpu_s").and_then(|v| v.parse().ok()) {
        tzmon::core::set_hang_limit_s(v);
    } else if let Some(v) = std::env::var("TZMON_HANG_CPU_S").ok().and_then(|v| v.parse().ok()) {
        tzmon::core::set_hang_limit_s(v);
    }
    install_panic_hook();
    if property == "TAPE" {
        // replay of a libFuzzer artifact of target `model`: the decision tape of one monitored case
        let prop = ctx.opts.get("prop").cloned().unwrap_or_default();
        let data = match std::fs::read(ctx.opts.get("file").cloned().unwrap_or_default()) {
            Ok(d) => d,
            Err(e) => {
                eprintln!("cannot read the tape: {}", e);
                std::process::exit(3);
            }
        };
        let l = tzmon::fuzzcase::run(&prop, &data);
        println!("tape of {} octets for {}: {} evaluations, {} violations", data.len(), prop, l.evaluations, l.violations.len());
        for v in &l.violations {
            println!("  {}\n    input:    {}\n    expected: {}\n    observed: {}", v.what, v.input, v.expected, v.observed);
        }
        return;
    }
    let t0 = Instant::now();
    let rep = match tzmon::mon::run(&property, &ctx) {
        Some(r) => r,
        None => {
            eprintln!("unknown property {}", property);
            std::process::exit(3);
        }
    };
    let wall = t0.elapsed().as_secs_f64();
    let doc = rep.to_json(&ctx, wall).to_string();
    match out {
        Some(p) => {
            if let Err(e) = std::fs::write(&p, doc) {
                eprintln!("cannot write {}: {}", p, e);
                std::process::exit(3);
            }
        }
        None => println!("{}", doc),
    }
    eprintln!("tzmon {} {:?}: {} evaluations, {} violations, {:.1}s", property, ctx.tier, rep.merged.evaluations, rep.merged.violations_total, wall);
}
