//! Every call into tz-rs made by a monitor goes through here. The facade records a call/return
//! event in a per-thread ring (so a violation report carries its history), normalises errors to a
//! small code, and applies the universal value invariant of C14 to every `DateTime` /
//! `UtcDateTime` that comes back, whatever property the workload belongs to.

use crate::model::cal;
use std::cell::{Cell, RefCell};
use std::sync::atomic::{AtomicU64, Ordering};
use tz::datetime::{FoundDateTimeKind, FoundDateTimeList, FoundDateTimeListRefMut};
use tz::error::datetime::DateTimeError;
use tz::error::parse::{TzFileError, TzStringError};
use tz::error::timezone::{LocalTimeTypeError, TimeZoneError, TransitionRuleError};
use tz::{DateTime, LocalTimeType, TimeZoneRef, TzError, UtcDateTime};

pub static C14_CHECKED: AtomicU64 = AtomicU64::new(0);
pub static PANICS: AtomicU64 = AtomicU64::new(0);

/// Error kinds as named by the property statements. Enums of tz-rs are non_exhaustive and carry no
/// PartialEq, hence this projection.
#[derive(Clone, Copy, Debug, PartialEq, Eq, Hash, PartialOrd, Ord)]
pub enum E {
    OutOfRange,
    NoAvailableLocalTimeType,
    InvalidMonth,
    InvalidMonthDay,
    InvalidHour,
    InvalidMinute,
    InvalidSecond,
    InvalidNanoseconds,
    InvalidUtcOffset,
    InvalidTimeZoneDesignationLength,
    InvalidTimeZoneDesignationChar,
    InvalidRuleDayJulianDay,
    InvalidRuleDayMonth,
    InvalidRuleDayWeek,
    InvalidRuleDayWeekDay,
    InvalidStdUtcOffset,
    InvalidDstUtcOffset,
    InvalidDstStartEndTime,
    InconsistentRule,
    NoLocalTimeType,
    InvalidLocalTimeTypeIndex,
    InvalidTransition,
    InvalidLeapSecond,
    InconsistentExtraRule,
    // TZif
    FileUtf8,
    FileEof,
    FileInvalidData,
    InvalidMagicNumber,
    UnsupportedTzFileVersion,
    InvalidHeader,
    InvalidFooter,
    InvalidDstIndicator,
    InvalidTimeZoneDesignationCharIndex,
    InvalidStdWallUtLocal,
    RemainingDataV1,
    // TZ string
    StrUtf8,
    StrParseInt,
    StrEof,
    StrInvalidData,
    InvalidOffsetHour,
    InvalidOffsetMinute,
    InvalidOffsetSecond,
    InvalidDayTimeHour,
    InvalidDayTimeMinute,
    InvalidDayTimeSecond,
    MissingDstStartEndRules,
    RemainingData,
    Empty,
    Io,
    Other,
}

pub fn ltt_err(e: &LocalTimeTypeError) -> E {
    match e {
        LocalTimeTypeError::InvalidUtcOffset => E::InvalidUtcOffset,
        LocalTimeTypeError::InvalidTimeZoneDesignationLength => E::InvalidTimeZoneDesignationLength,
        LocalTimeTypeError::InvalidTimeZoneDesignationChar => E::InvalidTimeZoneDesignationChar,
        _ => E::Other,
    }
}

pub fn rule_err(e: &TransitionRuleError) -> E {
    match e {
        TransitionRuleError::InvalidRuleDayJulianDay => E::InvalidRuleDayJulianDay,
        TransitionRuleError::InvalidRuleDayMonth => E::InvalidRuleDayMonth,
        TransitionRuleError::InvalidRuleDayWeek => E::InvalidRuleDayWeek,
        TransitionRuleError::InvalidRuleDayWeekDay => E::InvalidRuleDayWeekDay,
        TransitionRuleError::InvalidStdUtcOffset => E::InvalidStdUtcOffset,
        TransitionRuleError::InvalidDstUtcOffset => E::InvalidDstUtcOffset,
        TransitionRuleError::InvalidDstStartEndTime => E::InvalidDstStartEndTime,
        TransitionRuleError::InconsistentRule => E::InconsistentRule,
        _ => E::Other,
    }
}

pub fn tz_err(e: &TzError) -> E {
    match e {
        TzError::OutOfRange => E::OutOfRange,
        TzError::NoAvailableLocalTimeType => E::NoAvailableLocalTimeType,
        TzError::DateTime(d) => match d {
            DateTimeError::InvalidMonth => E::InvalidMonth,
            DateTimeError::InvalidMonthDay => E::InvalidMonthDay,
            DateTimeError::InvalidHour => E::InvalidHour,
            DateTimeError::InvalidMinute => E::InvalidMinute,
            DateTimeError::InvalidSecond => E::InvalidSecond,
            DateTimeError::InvalidNanoseconds => E::InvalidNanoseconds,
            _ => E::Other,
        },
        TzError::LocalTimeType(l) => ltt_err(l),
        TzError::TransitionRule(r) => rule_err(r),
        TzError::TimeZone(t) => match t {
            TimeZoneError::NoLocalTimeType => E::NoLocalTimeType,
            TimeZoneError::InvalidLocalTimeTypeIndex => E::InvalidLocalTimeTypeIndex,
            TimeZoneError::InvalidTransition => E::InvalidTransition,
            TimeZoneError::InvalidLeapSecond => E::InvalidLeapSecond,
            TimeZoneError::InconsistentExtraRule => E::InconsistentExtraRule,
            _ => E::Other,
        },
        TzError::TzFile(f) => match f {
            TzFileError::Utf8(_) => E::FileUtf8,
            TzFileError::ParseData(p) => match p {
                tz::error::parse::ParseDataError::UnexpectedEof => E::FileEof,
                tz::error::parse::ParseDataError::InvalidData => E::FileInvalidData,
                _ => E::Other,
            },
            TzFileError::InvalidMagicNumber => E::InvalidMagicNumber,
            TzFileError::UnsupportedTzFileVersion => E::UnsupportedTzFileVersion,
            TzFileError::InvalidHeader => E::InvalidHeader,
            TzFileError::InvalidFooter => E::InvalidFooter,
            TzFileError::InvalidDstIndicator => E::InvalidDstIndicator,
            TzFileError::InvalidTimeZoneDesignationCharIndex => E::InvalidTimeZoneDesignationCharIndex,
            TzFileError::InvalidStdWallUtLocal => E::InvalidStdWallUtLocal,
            TzFileError::RemainingDataV1 => E::RemainingDataV1,
            _ => E::Other,
        },
        TzError::TzString(s) => match s {
            TzStringError::Utf8(_) => E::StrUtf8,
            TzStringError::ParseInt(_) => E::StrParseInt,
            TzStringError::ParseData(p) => match p {
                tz::error::parse::ParseDataError::UnexpectedEof => E::StrEof,
                tz::error::parse::ParseDataError::InvalidData => E::StrInvalidData,
                _ => E::Other,
            },
            TzStringError::InvalidOffsetHour => E::InvalidOffsetHour,
            TzStringError::InvalidOffsetMinute => E::InvalidOffsetMinute,
            TzStringError::InvalidOffsetSecond => E::InvalidOffsetSecond,
            TzStringError::InvalidDayTimeHour => E::InvalidDayTimeHour,
            TzStringError::InvalidDayTimeMinute => E::InvalidDayTimeMinute,
            TzStringError::InvalidDayTimeSecond => E::InvalidDayTimeSecond,
            TzStringError::MissingDstStartEndRules => E::MissingDstStartEndRules,
            TzStringError::RemainingData => E::RemainingData,
            TzStringError::Empty => E::Empty,
            _ => E::Other,
        },
        _ => E::Other,
    }
}

pub fn top_err(e: &tz::Error) -> E {
    match e {
        tz::Error::Io(_) => E::Io,
        tz::Error::Tz(t) => tz_err(t),
        _ => E::Other,
    }
}

// ------------------------------------------------------------------------------------------------
// event ring

#[derive(Clone, Copy)]
struct Ev {
    seq: u64,
    op: &'static str,
    a: [i64; 4],
    ok: bool,
    out: i64,
}

const RING: usize = 32;

struct Ring {
    seq: u64,
    ev: [Ev; RING],
}

thread_local! {
    static RINGS: RefCell<Ring> = const { RefCell::new(Ring { seq: 0, ev: [Ev { seq: 0, op: "", a: [0; 4], ok: false, out: 0 }; RING] }) };
    static C14_LOCAL: Cell<u64> = const { Cell::new(0) };
    static SIDE: RefCell<Vec<(String, String, String, String)>> = const { RefCell::new(Vec::new()) };
}

#[inline]
pub fn ev(op: &'static str, a: [i64; 4], ok: bool, out: i64) {
    RINGS.with(|r| {
        let mut r = r.borrow_mut();
        let s = r.seq;
        r.ev[(s as usize) % RING] = Ev { seq: s, op, a, ok, out };
        r.seq = s + 1;
    });
}

pub fn ring_dump() -> Vec<String> {
    RINGS.with(|r| {
        let r = r.borrow();
        let mut v: Vec<Ev> = r.ev.iter().copied().filter(|e| !e.op.is_empty()).collect();
        v.sort_by_key(|e| e.seq);
        v.iter().rev().take(12).rev().map(|e| format!("#{} {}({},{},{},{}) -> {} {}", e.seq, e.op, e.a[0], e.a[1], e.a[2], e.a[3], if e.ok { "Ok" } else { "Err" }, e.out)).collect()
    })
}

pub fn events_recorded() -> u64 {
    RINGS.with(|r| r.borrow().seq)
}

/// flush thread-local counters into the process-wide ones (called when a worker finishes)
pub fn flush_thread() {
    C14_LOCAL.with(|c| {
        C14_CHECKED.fetch_add(c.get(), Ordering::Relaxed);
        c.set(0);
    });
}

pub fn take_side() -> Vec<(String, String, String, String)> {
    SIDE.with(|s| std::mem::take(&mut *s.borrow_mut()))
}

fn side(what: &str, input: String, expected: String, observed: String) {
    SIDE.with(|s| {
        let mut s = s.borrow_mut();
        if s.len() < 8 {
            s.push((what.to_string(), input, expected, observed));
        }
    });
}

// ------------------------------------------------------------------------------------------------
// universal C14 invariant

pub fn fmt_dt(dt: &DateTime) -> String {
    format!(
        "DateTime{{{}-{:02}-{:02}T{:02}:{:02}:{:02}.{:09} unix={} off={} dst={} desig={:?}}}",
        dt.year(),
        dt.month(),
        dt.month_day(),
        dt.hour(),
        dt.minute(),
        dt.second(),
        dt.nanoseconds(),
        dt.unix_time(),
        dt.local_time_type().ut_offset(),
        dt.local_time_type().is_dst(),
        dt.local_time_type().time_zone_designation()
    )
}

pub fn fmt_utc(dt: &UtcDateTime) -> String {
    format!("UtcDateTime{{{}-{:02}-{:02}T{:02}:{:02}:{:02}.{:09}}}", dt.year(), dt.month(), dt.month_day(), dt.hour(), dt.minute(), dt.second(), dt.nanoseconds())
}

/// fields are the UTC calendar fields of (unix time + offset), second 60 = :00 of the next minute;
/// week day / year day agree with the fields; nanoseconds as given.
#[inline]
pub fn c14_check(dt: &DateTime, ns: Option<u32>, origin: &'static str) -> bool {
    C14_LOCAL.with(|c| c.set(c.get() + 1));
    let y = dt.year() as i64;
    let shifted = dt.unix_time() as i128 + dt.local_time_type().ut_offset() as i128;
    let ok_fields = cal::valid_civil(y, dt.month(), dt.month_day(), dt.hour(), dt.minute(), dt.second(), 0) && cal::unix_from_civil(y, dt.month(), dt.month_day(), dt.hour(), dt.minute(), dt.second()) as i128 == shifted;
    let days = if ok_fields { cal::days_from_civil(y, dt.month() as u32, dt.month_day() as i64) } else { 0 };
    let ok_derived = !ok_fields || (dt.week_day() == cal::weekday_of_days(days) && dt.year_day() as i64 == days - cal::days_from_civil(y, 1, 1));
    let ok_ns = ns.map(|n| n == dt.nanoseconds()).unwrap_or(true) && dt.total_nanoseconds() == dt.unix_time() as i128 * 1_000_000_000 + dt.nanoseconds() as i128;
    if !(ok_fields && ok_derived && ok_ns) {
        side(
            "C14 invariant: zoned date-time fields do not denote (unix time + offset)",
            format!("value returned by {}", origin),
            format!("fields = UTC calendar of {} (second 60 = next minute), week/year day consistent, ns = {:?}, total_nanoseconds() = unix_time * 1e9 + nanoseconds", shifted, ns),
            format!("{} week_day={} year_day={} total_nanoseconds={}", fmt_dt(dt), dt.week_day(), dt.year_day(), dt.total_nanoseconds()),
        );
        return false;
    }
    true
}

// ------------------------------------------------------------------------------------------------
// wrapped operations

#[inline]
pub fn utc_from_timespec(t: i64, ns: u32) -> Result<UtcDateTime, E> {
    let r = UtcDateTime::from_timespec(t, ns).map_err(|e| tz_err(&e));
    ev("UtcDateTime::from_timespec", [t, ns as i64, 0, 0], r.is_ok(), r.as_ref().map(|d| d.year() as i64).unwrap_or(0));
    r
}

#[inline]
pub fn utc_from_total_ns(n: i128) -> Result<UtcDateTime, E> {
    let r = UtcDateTime::from_total_nanoseconds(n).map_err(|e| tz_err(&e));
    ev("UtcDateTime::from_total_nanoseconds", [(n >> 64) as i64, n as i64, 0, 0], r.is_ok(), 0);
    r
}

#[inline]
pub fn utc_new(y: i32, mo: u8, d: u8, h: u8, mi: u8, s: u8, ns: u32) -> Result<UtcDateTime, E> {
    let r = UtcDateTime::new(y, mo, d, h, mi, s, ns).map_err(|e| tz_err(&e));
    ev("UtcDateTime::new", [y as i64, (mo as i64) << 8 | d as i64, (h as i64) << 16 | (mi as i64) << 8 | s as i64, ns as i64], r.is_ok(), 0);
    r
}

#[inline]
pub fn lookup<'a>(tz: TimeZoneRef<'a>, t: i64) -> Result<&'a LocalTimeType, E> {
    let r = tz.find_local_time_type(t).map_err(|e| tz_err(&e));
    ev("find_local_time_type", [t, 0, 0, 0], r.is_ok(), r.as_ref().map(|l| l.ut_offset() as i64).unwrap_or(0));
    r
}

#[inline]
pub fn dt_from_timespec(t: i64, ns: u32, tz: TimeZoneRef<'_>) -> Result<DateTime, E> {
    let r = DateTime::from_timespec(t, ns, tz).map_err(|e| tz_err(&e));
    ev("DateTime::from_timespec", [t, ns as i64, 0, 0], r.is_ok(), r.as_ref().map(|d| d.local_time_type().ut_offset() as i64).unwrap_or(0));
    if let Ok(d) = &r {
        c14_check(d, Some(ns), "DateTime::from_timespec");
        if d.unix_time() != t {
            side("C14 invariant: instant altered", format!("DateTime::from_timespec({}, {})", t, ns), format!("unix_time {}", t), fmt_dt(d));
        }
    }
    r
}

#[inline]
pub fn dt_from_timespec_and_local(t: i64, ns: u32, ltt: LocalTimeType) -> Result<DateTime, E> {
    let r = DateTime::from_timespec_and_local(t, ns, ltt).map_err(|e| tz_err(&e));
    ev("DateTime::from_timespec_and_local", [t, ns as i64, ltt.ut_offset() as i64, 0], r.is_ok(), 0);
    if let Ok(d) = &r {
        c14_check(d, Some(ns), "DateTime::from_timespec_and_local");
        if d.unix_time() != t {
            side("C14 invariant: instant altered", format!("DateTime::from_timespec_and_local({}, {})", t, ns), format!("unix_time {}", t), fmt_dt(d));
        }
    }
    r
}

#[inline]
#[allow(clippy::too_many_arguments)]
pub fn dt_new(y: i32, mo: u8, d: u8, h: u8, mi: u8, s: u8, ns: u32, ltt: LocalTimeType) -> Result<DateTime, E> {
    let r = DateTime::new(y, mo, d, h, mi, s, ns, ltt).map_err(|e| tz_err(&e));
    ev("DateTime::new", [y as i64, (mo as i64) << 8 | d as i64, (h as i64) << 16 | (mi as i64) << 8 | s as i64, ltt.ut_offset() as i64], r.is_ok(), r.as_ref().map(|d| d.unix_time()).unwrap_or(0));
    if let Ok(d) = &r {
        c14_check(d, Some(ns), "DateTime::new");
    }
    r
}

#[inline]
pub fn dt_from_total_ns(n: i128, tz: TimeZoneRef<'_>) -> Result<DateTime, E> {
    let r = DateTime::from_total_nanoseconds(n, tz).map_err(|e| tz_err(&e));
    ev("DateTime::from_total_nanoseconds", [(n >> 64) as i64, n as i64, 0, 0], r.is_ok(), 0);
    if let Ok(d) = &r {
        c14_check(d, None, "DateTime::from_total_nanoseconds");
    }
    r
}

#[inline]
pub fn dt_from_total_ns_and_local(n: i128, ltt: LocalTimeType) -> Result<DateTime, E> {
    let r = DateTime::from_total_nanoseconds_and_local(n, ltt).map_err(|e| tz_err(&e));
    ev("DateTime::from_total_nanoseconds_and_local", [(n >> 64) as i64, n as i64, ltt.ut_offset() as i64, 0], r.is_ok(), 0);
    if let Ok(d) = &r {
        c14_check(d, None, "DateTime::from_total_nanoseconds_and_local");
    }
    r
}

#[inline]
pub fn project(dt: &DateTime, tz: TimeZoneRef<'_>) -> Result<DateTime, E> {
    let r = dt.project(tz).map_err(|e| tz_err(&e));
    ev("DateTime::project", [dt.unix_time(), dt.nanoseconds() as i64, 0, 0], r.is_ok(), 0);
    if let Ok(d) = &r {
        c14_check(d, Some(dt.nanoseconds()), "DateTime::project");
        if d.unix_time() != dt.unix_time() {
            side("C14 invariant: projection changed the instant", fmt_dt(dt), format!("unix_time {}", dt.unix_time()), fmt_dt(d));
        }
    }
    r
}

#[inline]
pub fn utc_project(dt: &UtcDateTime, tz: TimeZoneRef<'_>) -> Result<DateTime, E> {
    let r = dt.project(tz).map_err(|e| tz_err(&e));
    ev("UtcDateTime::project", [dt.unix_time(), dt.nanoseconds() as i64, 0, 0], r.is_ok(), 0);
    if let Ok(d) = &r {
        c14_check(d, Some(dt.nanoseconds()), "UtcDateTime::project");
        if d.unix_time() != dt.unix_time() {
            side("C14 invariant: projection changed the instant", fmt_utc(dt), format!("unix_time {}", dt.unix_time()), fmt_dt(d));
        }
    }
    r
}

fn check_found(k: &FoundDateTimeKind, ns: u32, origin: &'static str) {
    match k {
        FoundDateTimeKind::Normal(d) => {
            c14_check(d, Some(ns), origin);
            // a valid entry is a construction from fields and a local time type: it is the value DateTime::new gives
            // for the same fields and type, and is not returned where DateTime::new refuses (supported range)
            match DateTime::new(d.year(), d.month(), d.month_day(), d.hour(), d.minute(), d.second(), d.nanoseconds(), *d.local_time_type()) {
                Ok(w) => {
                    if w.unix_time() != d.unix_time() {
                        side("C14 invariant: a valid search result differs from DateTime::new of the same fields and type", format!("value returned by {}", origin), fmt_dt(&w), fmt_dt(d));
                    }
                }
                Err(e) => side("C14 invariant: the search returns a value that DateTime::new refuses for the same fields and type", format!("value returned by {}", origin), format!("Err({:?})", tz_err(&e)), fmt_dt(d)),
            }
        }
        FoundDateTimeKind::Skipped { before_transition, after_transition } => {
            c14_check(before_transition, Some(ns), origin);
            c14_check(after_transition, Some(ns), origin);
        }
    }
}

#[inline]
#[allow(clippy::too_many_arguments)]
pub fn find(y: i32, mo: u8, d: u8, h: u8, mi: u8, s: u8, ns: u32, tz: TimeZoneRef<'_>) -> Result<FoundDateTimeList, E> {
    let r = DateTime::find(y, mo, d, h, mi, s, ns, tz).map_err(|e| tz_err(&e));
    let n = match &r {
        Ok(l) => {
            let v = l.clone().into_inner();
            for k in &v {
                check_found(k, ns, "DateTime::find");
            }
            v.len() as i64
        }
        Err(_) => -1,
    };
    ev("DateTime::find", [y as i64, (mo as i64) << 8 | d as i64, (h as i64) << 16 | (mi as i64) << 8 | s as i64, ns as i64], r.is_ok(), n);
    r
}

thread_local! {
    static FIND_N_ALLOCS: std::cell::Cell<(usize, usize)> = const { std::cell::Cell::new((0, 0)) };
}

/// (number of heap allocations, bytes) made by this thread inside the last `DateTime::find_n` call
pub fn last_find_n_allocations() -> (usize, usize) {
    FIND_N_ALLOCS.with(|c| c.get())
}

#[inline]
#[allow(clippy::too_many_arguments)]
pub fn find_n<'a>(buf: &'a mut [Option<FoundDateTimeKind>], y: i32, mo: u8, d: u8, h: u8, mi: u8, s: u8, ns: u32, tz: TimeZoneRef<'_>) -> Result<FoundDateTimeListRefMut<'a>, E> {
    let blen = buf.len() as i64;
    // the buffer-based search is the allocation-free one: the counting allocator brackets exactly this call
    let snap = crate::util::alloc::begin();
    let r = DateTime::find_n(buf, y, mo, d, h, mi, s, ns, tz);
    let used = crate::util::alloc::end(snap);
    FIND_N_ALLOCS.with(|c| c.set((used.nalloc, used.total)));
    let r = r.map_err(|e| tz_err(&e));
    let n = match &r {
        Ok(l) => {
            for k in l.data().iter().flatten() {
                check_found(k, ns, "DateTime::find_n");
            }
            l.count() as i64
        }
        Err(_) => -1,
    };
    ev("DateTime::find_n", [y as i64, (mo as i64) << 8 | d as i64, (h as i64) << 16 | (mi as i64) << 8 | s as i64, blen], r.is_ok(), n);
    r
}
