//! Run context, per-thread accumulators, the sharded case runner and the result document.

use crate::util::json::Json;
use crate::util::rng::Rng;
use std::cell::RefCell;
use std::collections::{BTreeMap, HashSet};
use std::panic::{catch_unwind, AssertUnwindSafe};
use std::sync::atomic::{AtomicU64, Ordering};
use std::sync::Mutex;

#[derive(Clone, Copy, Debug, PartialEq, Eq)]
pub enum Tier {
    Quick,
    Thorough,
}

#[derive(Clone, Debug)]
pub struct Ctx {
    pub tier: Tier,
    pub seed: u64,
    pub threads: usize,
    /// multiplies every workload size (slices for Miri/ASan/valgrind use e.g. 0.001)
    pub scale: f64,
    /// Some((workload, index)): run exactly that case
    pub replay: Option<(u64, u64)>,
    /// directory with the vendored corpus (zoneinfo files)
    pub corpus: String,
    /// free-form switches (e.g. "events=PATH")
    pub opts: BTreeMap<String, String>,
    /// wall-clock budget of the whole run in seconds (sanitizer slices only): when it is used up every
    /// remaining workload still runs its first case, but no further case is started. Only the *volume*
    /// explored depends on it, never a verdict.
    pub budget_s: Option<f64>,
}

impl Ctx {
    pub fn quick(&self) -> bool {
        self.tier == Tier::Quick
    }
    /// workload size: quick/thorough base counts, scaled, at least 1
    /// inner-loop length: full when scale >= 1, shrunk for sanitizer slices
    pub fn inner(&self, n: u64) -> u64 {
        if self.scale >= 1.0 {
            n
        } else {
            ((n as f64 * self.scale.sqrt()).ceil() as u64).max(1)
        }
    }
    pub fn n(&self, quick: u64, thorough: u64) -> u64 {
        let base = if self.quick() { quick } else { thorough };
        ((base as f64 * self.scale).ceil() as u64).max(1)
    }
}

/// Three-valued expectation: whatever the property statement does not pin down is `Unspec`
/// and can never raise an alarm.
#[derive(Clone, Debug, PartialEq)]
pub enum Expect<T> {
    Must(T),
    MustFail,
    Unspec,
}

#[derive(Clone, Debug)]
pub struct Violation {
    pub what: String,
    pub workload: u64,
    pub index: u64,
    pub input: String,
    pub expected: String,
    pub observed: String,
    pub history: Vec<String>,
}

impl Violation {
    pub fn to_json(&self, seed: u64) -> Json {
        Json::obj()
            .set("what", self.what.clone())
            .set("workload", self.workload)
            .set("index", self.index)
            .set("seed", seed)
            .set("input", self.input.clone())
            .set("expected", self.expected.clone())
            .set("observed", self.observed.clone())
            .set("history", self.history.clone())
            .set("signature", self.signature())
    }
    /// key used by known_findings.json: what + exact input
    pub fn signature(&self) -> String {
        format!("{} | {}", self.what, self.input)
    }
}

const MAX_VIOLATIONS: usize = 60;
const MAX_SAMPLES: usize = 6;
const DISTINCT_CAP: usize = 2_000_000;

/// Per-thread accumulator; merged after join, so the monitor state cannot itself race.
#[derive(Default)]
pub struct Local {
    pub evaluations: u64,
    pub classes: BTreeMap<&'static str, u64>,
    pub ops: BTreeMap<&'static str, u64>,
    pub distinct: HashSet<u64>,
    /// distinct-by-construction cases (enumerations) are counted, not hashed
    pub distinct_enumerated: u64,
    pub samples: Vec<Json>,
    pub violations: Vec<Violation>,
    pub violations_total: u64,
    pub unspecified: u64,
    pub cur_workload: u64,
    pub cur_index: u64,
    pub harness_errors: Vec<String>,
}

impl Local {
    #[inline]
    pub fn class(&mut self, name: &'static str) {
        *self.classes.entry(name).or_insert(0) += 1;
    }
    #[inline]
    pub fn class_n(&mut self, name: &'static str, n: u64) {
        *self.classes.entry(name).or_insert(0) += n;
    }
    #[inline]
    pub fn op(&mut self, name: &'static str) {
        *self.ops.entry(name).or_insert(0) += 1;
        self.evaluations += 1;
    }
    #[inline]
    pub fn op_n(&mut self, name: &'static str, n: u64) {
        *self.ops.entry(name).or_insert(0) += n;
        self.evaluations += n;
    }
    #[inline]
    pub fn distinct_hash(&mut self, h: u64) {
        if self.distinct.len() < DISTINCT_CAP {
            self.distinct.insert(h);
        }
    }
    pub fn sample(&mut self, f: impl FnOnce() -> Json) {
        if self.samples.len() < MAX_SAMPLES {
            self.samples.push(f());
        }
    }
    pub fn violation(&mut self, what: &str, input: String, expected: String, observed: String) {
        self.violations_total += 1;
        // keep a few witnesses of every distinct kind, so a frequent kind cannot hide a rare one
        let same_kind = self.violations.iter().filter(|v| v.what == what).count();
        if self.violations.len() < MAX_VIOLATIONS && same_kind < 12 {
            self.violations.push(Violation {
                what: what.to_string(),
                workload: self.cur_workload,
                index: self.cur_index,
                input,
                expected,
                observed,
                history: crate::facade::ring_dump(),
            });
        }
    }
}

pub struct Report {
    pub property: &'static str,
    pub rule: String,
    pub exhaustive: bool,
    pub required_classes: Vec<&'static str>,
    pub merged: Local,
    pub notes: Vec<String>,
    pub inconclusive: Vec<String>,
    pub extra: BTreeMap<String, Json>,
}

impl Report {
    pub fn new(property: &'static str) -> Report {
        Report {
            property,
            rule: String::new(),
            exhaustive: false,
            required_classes: vec![],
            merged: Local::default(),
            notes: vec![],
            inconclusive: vec![],
            extra: BTreeMap::new(),
        }
    }

    pub fn merge(&mut self, l: Local) {
        let m = &mut self.merged;
        m.evaluations += l.evaluations;
        for (k, v) in l.classes {
            *m.classes.entry(k).or_insert(0) += v;
        }
        for (k, v) in l.ops {
            *m.ops.entry(k).or_insert(0) += v;
        }
        for h in l.distinct {
            if m.distinct.len() < DISTINCT_CAP * 4 {
                m.distinct.insert(h);
            }
        }
        m.distinct_enumerated += l.distinct_enumerated;
        for s in l.samples {
            if m.samples.len() < MAX_SAMPLES * 2 {
                m.samples.push(s);
            }
        }
        m.violations_total += l.violations_total;
        for v in l.violations {
            let same_kind = m.violations.iter().filter(|x| x.what == v.what).count();
            if m.violations.len() < MAX_VIOLATIONS && same_kind < 12 {
                m.violations.push(v);
            }
        }
        m.unspecified += l.unspecified;
        for e in l.harness_errors {
            if self.inconclusive.len() < 5 {
                self.inconclusive.push(e);
            }
        }
    }

    pub fn to_json(&self, ctx: &Ctx, wall_s: f64) -> Json {
        let m = &self.merged;
        let mut classes = Json::obj();
        for (k, v) in &m.classes {
            classes.put(k, *v);
        }
        let mut ops = Json::obj();
        for (k, v) in &m.ops {
            ops.put(k, *v);
        }
        let missing: Vec<String> = self.required_classes.iter().filter(|c| m.classes.get(*c).copied().unwrap_or(0) == 0).map(|s| s.to_string()).collect();
        let mut j = Json::obj()
            .set("property", self.property)
            .set("tier", if ctx.quick() { "quick" } else { "thorough" })
            .set("seed", ctx.seed)
            .set("scale", ctx.scale)
            .set("threads", ctx.threads)
            .set("evaluations", m.evaluations)
            .set("distinct_nontrivial", m.distinct.len() as u64 + m.distinct_enumerated)
            .set("rule", self.rule.clone())
            .set("exhaustive", self.exhaustive)
            .set("classes", classes)
            .set("ops", ops)
            .set("required_classes_missing", missing)
            .set("samples", Json::Arr(m.samples.clone()))
            .set("unspecified_cases", m.unspecified)
            .set("violations_total", m.violations_total)
            .set("violations", Json::Arr(m.violations.iter().map(|v| v.to_json(ctx.seed)).collect()))
            .set("c14_values_checked", crate::facade::C14_CHECKED.load(Ordering::Relaxed))
            .set("panics_caught", crate::facade::PANICS.load(Ordering::Relaxed))
            .set("notes", self.notes.clone())
            .set("inconclusive", self.inconclusive.clone())
            .set("wall_s", wall_s);
        for (k, v) in &self.extra {
            j.put(k, v.clone());
        }
        j
    }
}

/// start of the first workload of this process: the slice budget is a budget for the whole run
static PROCESS_START: std::sync::OnceLock<std::time::Instant> = std::sync::OnceLock::new();

thread_local! {
    static PANIC_MSG: RefCell<Option<String>> = const { RefCell::new(None) };
}

pub fn install_panic_hook() {
    std::panic::set_hook(Box::new(|info| {
        let msg = format!("{}", info);
        PANIC_MSG.with(|m| *m.borrow_mut() = Some(msg));
    }));
}

pub fn take_panic_msg() -> String {
    PANIC_MSG.with(|m| m.borrow_mut().take()).unwrap_or_else(|| "<no message>".to_string())
}

/// Run `n` cases of workload `wl` sharded over the context's threads. Each case gets its own
/// generator derived from (seed, wl, index). A panic inside a case is an *event*: it is caught and
/// recorded as a violation of the running property (and counted for C07), never a harness crash.
pub fn run_cases<F>(ctx: &Ctx, rep: &mut Report, wl: u64, n: u64, f: F)
where
    F: Fn(&mut Local, &mut Rng, u64) + Sync,
{
    if let Some((rwl, ridx)) = ctx.replay {
        if rwl != wl {
            return;
        }
        let mut l = Local::default();
        l.cur_workload = wl;
        l.cur_index = ridx;
        let mut rng = Rng::for_case(ctx.seed, wl, ridx);
        run_one(&mut l, &mut rng, ridx, &f);
        crate::facade::flush_thread();
        rep.merge(l);
        return;
    }
    if n == 0 {
        return;
    }
    let threads = ctx.threads.max(1).min(n as usize);
    let next = AtomicU64::new(0);
    // chunked dynamic scheduling: cases are independent, results merged after join
    let chunk = if ctx.budget_s.is_some() { 1 } else { (n / (threads as u64 * 16)).clamp(1, 4096) };
    let results: Mutex<Vec<Local>> = Mutex::new(Vec::new());
    let started = *PROCESS_START.get_or_init(std::time::Instant::now);
    std::thread::scope(|s| {
        for _ in 0..threads {
            s.spawn(|| {
                let mut l = Local::default();
                l.cur_workload = wl;
                loop {
                    let start = next.fetch_add(chunk, Ordering::Relaxed);
                    if start >= n {
                        break;
                    }
                    if let Some(b) = ctx.budget_s {
                        if start > 0 && started.elapsed().as_secs_f64() > b {
                            l.class("slice_budget_reached_(workload_cut_short)");
                            break;
                        }
                    }
                    let end = (start + chunk).min(n);
                    for i in start..end {
                        l.cur_index = i;
                        let mut rng = Rng::for_case(ctx.seed, wl, i);
                        run_one(&mut l, &mut rng, i, &f);
                    }
                }
                crate::facade::flush_thread();
                results.lock().unwrap().push(l);
            });
        }
    });
    for l in results.into_inner().unwrap() {
        rep.merge(l);
    }
}

/// Like `run_cases` for an enumeration of `total` cases: complete at scale >= 1, an evenly strided
/// subset (first and last included) for sanitizer slices.
pub fn run_enum<F>(ctx: &Ctx, rep: &mut Report, wl: u64, total: u64, f: F)
where
    F: Fn(&mut Local, &mut Rng, u64) + Sync,
{
    if ctx.scale >= 1.0 || ctx.replay.is_some() || total <= 2 {
        return run_cases(ctx, rep, wl, total, f);
    }
    let k = ((total as f64 * ctx.scale).ceil() as u64).clamp(2, total);
    run_cases(ctx, rep, wl, k, |l, rng, j| {
        let mapped = ((j as u128 * (total - 1) as u128) / (k - 1) as u128) as u64;
        l.cur_index = mapped;
        *rng = Rng::for_case(ctx.seed, wl, mapped);
        f(l, rng, mapped)
    });
}

// ------------------------------------------------------------------------------------------------
// hang monitor: a case that never returns cannot report itself. Every worker publishes (thread id, workload,
// case, CPU time at case start); a monitor thread reads the workers' CPU time from procfs and, when a single case
// has consumed more than the limit of *CPU time* (never wall-clock: a loaded machine must not produce verdicts),
// names the case on stderr and ends the process with status 86. The driver turns that into a finding.

struct HangSlot {
    tid: AtomicU64,
    wl: AtomicU64,
    idx: AtomicU64,
    start_cpu_ns: AtomicU64,
    active: AtomicU64,
}

const HANG_SLOTS: usize = 256;
static HANG_TABLE: [HangSlot; HANG_SLOTS] = {
    const S: HangSlot = HangSlot { tid: AtomicU64::new(0), wl: AtomicU64::new(0), idx: AtomicU64::new(0), start_cpu_ns: AtomicU64::new(0), active: AtomicU64::new(0) };
    [S; HANG_SLOTS]
};
static HANG_NEXT: AtomicU64 = AtomicU64::new(0);
static HANG_LIMIT_S: AtomicU64 = AtomicU64::new(120);
static HANG_MONITOR: std::sync::Once = std::sync::Once::new();

thread_local! {
    static HANG_MY_SLOT: std::cell::Cell<Option<usize>> = const { std::cell::Cell::new(None) };
}

pub fn set_hang_limit_s(s: u64) {
    HANG_LIMIT_S.store(s.max(1), Ordering::Relaxed);
}

fn hang_slot() -> Option<&'static HangSlot> {
    if cfg!(miri) {
        return None;
    }
    HANG_MONITOR.call_once(|| {
        std::thread::spawn(|| loop {
            std::thread::sleep(std::time::Duration::from_millis(1500));
            let limit_ns = HANG_LIMIT_S.load(Ordering::Relaxed) * 1_000_000_000;
            for s in HANG_TABLE.iter() {
                if s.active.load(Ordering::Acquire) == 0 {
                    continue;
                }
                let (tid, wl, idx, start) = (s.tid.load(Ordering::Relaxed), s.wl.load(Ordering::Relaxed), s.idx.load(Ordering::Relaxed), s.start_cpu_ns.load(Ordering::Relaxed));
                if let Some(now) = crate::util::cpu::cpu_ns_of_tid(tid) {
                    // re-check that the slot still describes the same case
                    if s.active.load(Ordering::Acquire) != 0 && s.idx.load(Ordering::Relaxed) == idx && s.wl.load(Ordering::Relaxed) == wl && now.saturating_sub(start) > limit_ns {
                        eprintln!("TZMON-HANG workload={} case={} cpu_s={} limit_s={}", wl, idx, now.saturating_sub(start) / 1_000_000_000, limit_ns / 1_000_000_000);
                        std::process::exit(86);
                    }
                }
            }
        });
    });
    let k = HANG_MY_SLOT.with(|c| {
        if c.get().is_none() {
            let k = HANG_NEXT.fetch_add(1, Ordering::Relaxed) as usize;
            if k < HANG_SLOTS {
                HANG_TABLE[k].tid.store(crate::util::cpu::gettid(), Ordering::Relaxed);
                c.set(Some(k));
            } else {
                c.set(Some(usize::MAX));
            }
        }
        c.get()
    })?;
    HANG_TABLE.get(k)
}

fn run_one<F>(l: &mut Local, rng: &mut Rng, i: u64, f: &F)
where
    F: Fn(&mut Local, &mut Rng, u64) + Sync,
{
    let slot = hang_slot();
    if let Some(s) = slot {
        s.wl.store(l.cur_workload, Ordering::Relaxed);
        s.idx.store(i, Ordering::Relaxed);
        s.start_cpu_ns.store(crate::util::cpu::thread_cpu_ns(), Ordering::Relaxed);
        s.active.store(1, Ordering::Release);
    }
    let r = catch_unwind(AssertUnwindSafe(|| f(l, rng, i)));
    if let Some(s) = slot {
        s.active.store(0, Ordering::Release);
    }
    if r.is_err() {
        let msg = take_panic_msg();
        // location of the panic: harness sources are compiled from relative paths ("src/..."), tz-rs (a path
        // dependency outside the workspace) and std from absolute ones. A panic of the harness itself is a
        // harness defect: inconclusive, never a violation.
        let in_harness = msg.split("panicked at ").nth(1).map(|r| r.starts_with("src/")).unwrap_or(false);
        if in_harness {
            l.harness_errors.push(format!("harness panic in workload {} case {}: {}", l.cur_workload, i, msg.replace('\n', " ")));
        } else {
            crate::facade::PANICS.fetch_add(1, Ordering::Relaxed);
            l.class("panic_caught");
            l.violation("panic during monitored case", format!("workload {} case {}", l.cur_workload, i), "no panic: every failure is a returned error".into(), msg);
        }
    }
    for (what, input, expected, observed) in crate::facade::take_side() {
        l.violation(&what, input, expected, observed);
    }
}

/// FNV-1a, for distinct-input counting
#[derive(Clone, Copy)]
pub struct Fnv(pub u64);
impl Fnv {
    pub fn new() -> Fnv {
        Fnv(0xcbf29ce484222325)
    }
    #[inline]
    pub fn i(mut self, v: i64) -> Fnv {
        for b in v.to_le_bytes() {
            self.0 ^= b as u64;
            self.0 = self.0.wrapping_mul(0x100000001b3);
        }
        self
    }
    #[inline]
    pub fn b(mut self, bytes: &[u8]) -> Fnv {
        for &b in bytes {
            self.0 ^= b as u64;
            self.0 = self.0.wrapping_mul(0x100000001b3);
        }
        self
    }
    pub fn get(self) -> u64 {
        self.0
    }
}
