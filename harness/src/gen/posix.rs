//! Grammar-directed generator of TZ descriptions: a rule and one of its many spellings
//! (optional '+', leading zeros, h / h:m / h:m:s, quoted / unquoted names, default parts omitted).

use crate::gen::rule as grule;
use crate::model::rule::{AltSpec, TypeSpec};
use crate::model::zone::RuleSpec;
use crate::util::rng::Rng;

fn spell_num(v: u32, rng: &mut Rng) -> String {
    match rng.below(4) {
        0 => format!("{:02}", v),
        1 if v < 100 => format!("{:03}", v),
        _ => format!("{}", v),
    }
}

/// hh[:mm[:ss]] of a non-negative number of seconds; shortest form allowed is chosen at random
fn spell_hms(secs: u32, rng: &mut Rng) -> String {
    let (h, m, s) = (secs / 3600, secs / 60 % 60, secs % 60);
    let need = if s != 0 { 3 } else if m != 0 { 2 } else { 1 };
    let parts = need.max(1 + rng.below(3) as usize);
    let mut out = spell_num(h, rng);
    if parts >= 2 {
        out.push(':');
        out.push_str(&spell_num(m, rng));
    }
    if parts >= 3 {
        out.push(':');
        out.push_str(&spell_num(s, rng));
    }
    out
}

fn spell_signed(v: i32, rng: &mut Rng) -> String {
    let sign = if v < 0 { "-" } else if rng.chance(1, 3) { "+" } else { "" };
    format!("{}{}", sign, spell_hms(v.unsigned_abs(), rng))
}

fn spell_name(t: &TypeSpec, rng: &mut Rng) -> String {
    let d = t.desig.clone().unwrap_or_default();
    if d.bytes().all(|c| c.is_ascii_alphabetic()) && rng.chance(3, 4) {
        d
    } else {
        format!("<{}>", d)
    }
}

pub fn spell_fixed(t: &TypeSpec, rng: &mut Rng) -> String {
    format!("{}{}", spell_name(t, rng), spell_signed(-t.off, rng))
}

/// returns the text and whether it uses RFC 8536 extensions
pub fn spell_alt(a: &AltSpec, rng: &mut Rng) -> (String, bool) {
    let mut s = format!("{}{}{}", spell_name(&a.std, rng), spell_signed(-a.std.off, rng), spell_name(&a.dst, rng));
    if !(a.dst.off == a.std.off + 3600 && rng.chance(2, 3)) {
        s.push_str(&spell_signed(-a.dst.off, rng));
    }
    let mut ext = false;
    for (d, t) in [(a.start, a.start_time), (a.end, a.end_time)] {
        s.push(',');
        s.push_str(&d.posix());
        if !(t == 7200 && rng.chance(2, 3)) {
            s.push('/');
            if t < 0 || t > 89999 {
                ext = true;
                s.push_str(&spell_signed(t, rng));
            } else if rng.chance(1, 6) {
                // an explicit '+' is an extension too
                ext = true;
                s.push('+');
                s.push_str(&spell_hms(t as u32, rng));
            } else {
                s.push_str(&spell_hms(t as u32, rng));
            }
        }
    }
    (s, ext)
}

/// a random rule expressible as a TZ description (offsets within +-24:59:59, names present)
pub fn rand_expressible(rng: &mut Rng) -> RuleSpec {
    let names = ["EST", "EDT", "CEST", "NZDT", "ABCDEFG", "+03", "-0330", "A1B", "x-y+z", "UTC", "WxYz"];
    if rng.chance(1, 4) {
        let off = grule::rand_rule_offset(rng).clamp(-89999, 89999);
        return RuleSpec::Fixed(TypeSpec::new(off, false, Some(names[rng.below(names.len() as u64) as usize])));
    }
    loop {
        let mut a = if rng.chance(1, 3) { grule::gen_tie(rng) } else { grule::rand_alt(rng) };
        a.std.off = a.std.off.clamp(-89999, 89999);
        a.dst.off = a.dst.off.clamp(-89999, 89999);
        a.std.desig = Some(names[rng.below(names.len() as u64) as usize].to_string());
        a.dst.desig = Some(names[rng.below(names.len() as u64) as usize].to_string());
        return RuleSpec::Alt(a);
    }
}
