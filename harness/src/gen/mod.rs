//! Seeded generators, tie constructors and enumerators.
