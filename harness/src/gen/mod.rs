//! Seeded generators, tie constructors and enumerators.
pub mod rule;
pub mod zone;
pub mod posix;
