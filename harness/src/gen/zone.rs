//! Zone generators. Zones are valid by construction (per the C13 statement); shapes: table only /
//! rule only / table + fixed rule / table + DST rule with the junction placed on, just before and
//! just after a rule instant / with leap seconds of both signs; offsets up to +-i32; transitions as
//! close as 1 s so that 3+ search candidates overlap; table lengths 2^k-1, 2^k, 2^k+1.

use crate::gen::rule as grule;
use crate::model::cal;
use crate::model::leap::LeapTable;
use crate::model::rule::{AltSpec, TypeSpec};
use crate::model::zone::{Fwd, RuleSpec, ZoneSpec};
use crate::util::rng::Rng;

#[derive(Clone, Copy, Debug, PartialEq, Eq)]
pub enum RuleMode {
    None,
    Fixed,
    Alt,
    Any,
}

#[derive(Clone, Debug)]
pub struct ZoneCfg {
    pub max_transitions: usize,
    pub rule: RuleMode,
    pub leaps: bool,
    pub negative_leaps: bool,
    pub extreme_offsets: bool,
    pub extreme_times: bool,
    /// keep the whole table inside the representable date range (needed when local times are searched)
    pub in_date_range: bool,
    /// never let two table transitions take effect at the same UTC instant (possible only through an
    /// inserted leap second). The search monitors exclude that class from *random* generation because
    /// it is the known finding F5 (replayed from explicit witnesses instead).
    pub utc_distinct: bool,
}

impl ZoneCfg {
    pub fn search() -> ZoneCfg {
        ZoneCfg { max_transitions: 24, rule: RuleMode::Any, leaps: true, negative_leaps: true, extreme_offsets: true, extreme_times: false, in_date_range: true, utc_distinct: true }
    }
    pub fn lookup() -> ZoneCfg {
        ZoneCfg { max_transitions: 4097, rule: RuleMode::Any, leaps: true, negative_leaps: true, extreme_offsets: true, extreme_times: true, in_date_range: false, utc_distinct: false }
    }
}

const DESIG_ALPHA: &[u8] = b"ABCDEFGHIJKLMNOPQRSTUVWXYZabcdefghijklmnopqrstuvwxyz0123456789+-";

pub fn desig(i: usize, rng: &mut Rng) -> String {
    // unique per zone (the index is encoded), length 3..=7
    let mut s = format!("T{:02}", i % 100);
    let extra = rng.below(5) as usize;
    for _ in 0..extra {
        s.push(DESIG_ALPHA[rng.below(DESIG_ALPHA.len() as u64) as usize] as char);
    }
    s
}

pub fn rand_offset(rng: &mut Rng, extreme: bool) -> i32 {
    match rng.below(if extreme { 8 } else { 6 }) {
        0 | 1 => (rng.range(-14 * 4, 14 * 4) * 900) as i32,
        2 => (rng.range(-12, 14) * 3600) as i32,
        3 => rng.range(-100_000, 100_000) as i32,
        4 => *rng.pick(&[0, 1, -1, 3600, -3600, 7200, 1800, 60, 59, 61]),
        5 => rng.range(-3600, 3600) as i32,
        6 => *rng.pick(&[i32::MAX, i32::MIN + 1, i32::MAX - 1, 1 << 30, -(1 << 30)]),
        _ => (rng.next() as i32).max(i32::MIN + 1),
    }
}

pub fn rand_gap(rng: &mut Rng) -> i64 {
    match rng.below(10) {
        0 => 1,
        1 => rng.range(1, 3),
        2 => *rng.pick(&[59, 60, 61, 1799, 1800, 1801, 3599, 3600, 3601, 7200, 86399, 86400, 86401]),
        3 | 4 => rng.range(1, 7200),
        5 | 6 => rng.range(3600, 86400 * 200),
        7 => rng.range(86400 * 100, 86400 * 400),
        8 => rng.range(1, 1 << 40),
        _ => rng.range(1, 100_000_000),
    }
}

pub fn pick_len(rng: &mut Rng, max: usize) -> usize {
    let n = match rng.below(12) {
        0 => 0,
        1 => 1,
        2 => 2,
        3 | 4 | 5 => rng.range(1, 12) as usize,
        6 | 7 => rng.range(3, 64) as usize,
        8 | 9 => {
            let k = rng.range(1, 12) as u32;
            ((1usize << k) as i64 + rng.range(-1, 1)) as usize
        }
        _ => rng.range(0, 300) as usize,
    };
    n.min(max)
}

pub fn gen_leaps(rng: &mut Rng, negative: bool) -> LeapTable {
    let n = match rng.below(6) {
        0 => 1,
        1 => 2,
        2 => 27,
        _ => rng.range(1, 40) as usize,
    };
    let mut v = Vec::with_capacity(n);
    let mut l: i64 = match rng.below(4) {
        0 => 0,
        1 => 78796800,
        _ => rng.range(0, 2_000_000_000),
    };
    let mut c: i32 = if negative && rng.chance(1, 3) { -1 } else { 1 };
    for i in 0..n {
        v.push((l, c));
        if i + 1 == n {
            break;
        }
        let step = match rng.below(4) {
            0 => 2_419_199,
            1 => 2_419_200,
            2 => rng.range(2_419_199, 40_000_000),
            _ => rng.range(15_000_000, 80_000_000),
        };
        l += step;
        c += if negative && rng.chance(1, 3) { -1 } else { 1 };
    }
    LeapTable(v)
}

/// Build a zone. Transitions are generated backwards from the last one so that a trailing rule can
/// be made consistent with it (C13's last clause) by construction.
pub fn gen_zone(rng: &mut Rng, cfg: &ZoneCfg) -> ZoneSpec {
    let rule_mode = match cfg.rule {
        RuleMode::Any => *rng.pick(&[RuleMode::None, RuleMode::None, RuleMode::Fixed, RuleMode::Alt, RuleMode::Alt]),
        m => m,
    };
    let leaps = if cfg.leaps && rng.chance(1, 4) { gen_leaps(rng, cfg.negative_leaps) } else { LeapTable::default() };
    // types
    let ntypes = rng.range(1, 6) as usize;
    let extreme = cfg.extreme_offsets && rng.chance(1, 6);
    let mut types: Vec<TypeSpec> = Vec::with_capacity(ntypes + 2);
    for i in 0..ntypes {
        let off = if i > 0 && rng.chance(1, 5) { types[rng.below(i as u64) as usize].off } else { rand_offset(rng, extreme) };
        let d = if rng.chance(1, 10) { None } else { Some(desig(i, rng)) };
        types.push(TypeSpec { off, dst: rng.chance(1, 2), desig: d });
    }
    let rule: Option<RuleSpec> = match rule_mode {
        RuleMode::None => None,
        RuleMode::Fixed => Some(RuleSpec::Fixed(if rng.chance(1, 2) { types[rng.below(ntypes as u64) as usize].clone() } else { TypeSpec { off: rand_offset(rng, false), dst: rng.chance(1, 2), desig: Some(desig(90, rng)) } })),
        _ => Some(RuleSpec::Alt(grule::gen_interleaving(rng).0)),
    };
    let mut n = pick_len(rng, cfg.max_transitions);
    if n == 0 {
        return ZoneSpec { transitions: vec![], types, leaps, rule };
    }
    // last transition time
    let lo = if cfg.in_date_range { cal::min_unix() / 2 } else { i64::MIN };
    let hi = if cfg.in_date_range { cal::max_unix() / 2 } else { i64::MAX };
    let mut t_last: i64 = match rng.below(8) {
        0 | 1 | 2 | 3 => rng.range(-3_000_000_000, 6_000_000_000),
        4 => rng.range(-100_000_000_000, 100_000_000_000),
        5 if cfg.extreme_times && rule.is_none() => *rng.pick(&[i64::MAX, i64::MAX - 1, i64::MIN + 5, cal::max_unix(), cal::min_unix()]),
        6 if cfg.extreme_times && !matches!(rule, Some(RuleSpec::Alt(_))) => rng.i64_log().clamp(i64::MIN + 2, i64::MAX - 2),
        _ => rng.range(-2_000_000_000, 4_000_000_000),
    };
    t_last = t_last.clamp(lo, hi);
    // junction on / just before / just after a rule instant
    if let Some(RuleSpec::Alt(a)) = &rule {
        if rng.chance(1, 2) {
            let y = rng.range(1800, 2500);
            let inst = if rng.chance(1, 2) { a.s(y) } else { a.e(y) };
            let u = inst + *rng.pick(&[-1i64, 0, 0, 1, 3600, -3600]);
            let l = leaps.f(u);
            if l > i64::MIN as i128 && l < i64::MAX as i128 {
                t_last = l as i64;
            }
        }
    }
    if !leaps.is_empty() && rng.chance(1, 2) {
        // junction / transitions exactly on leap records
        let (l, _) = *rng.pick(&leaps.0);
        if !matches!(rule, Some(RuleSpec::Alt(_))) || rng.chance(1, 2) {
            t_last = l + *rng.pick(&[-1i64, 0, 1, 2]);
        }
    }
    // times, backwards
    let mut times = vec![t_last];
    while times.len() < n {
        let prev = *times.last().unwrap();
        let mut gap = rand_gap(rng);
        if !leaps.is_empty() && rng.chance(1, 4) {
            // land on a leap record
            let (l, _) = *rng.pick(&leaps.0);
            let tgt = l.saturating_add(*rng.pick(&[-1i64, 0, 1]));
            if tgt < prev {
                gap = prev.saturating_sub(tgt);
            }
        }
        match prev.checked_sub(gap) {
            Some(t) if t >= lo => times.push(t),
            _ => break,
        }
    }
    if cfg.extreme_times && rule.is_none() && rng.chance(1, 20) {
        let first = *times.last().unwrap();
        if first > i64::MIN {
            times.push(i64::MIN);
        }
    }
    times.reverse();
    if cfg.utc_distinct && !leaps.is_empty() {
        // drop a transition that takes effect at the same UTC instant as its predecessor (never the last one)
        let mut keep: Vec<i64> = Vec::with_capacity(times.len());
        for (k, &t) in times.iter().enumerate() {
            let next_same = times.get(k + 1).map(|&nt| leaps.switch(nt) == leaps.switch(t)).unwrap_or(false);
            if !next_same {
                keep.push(t);
            }
        }
        times = keep;
    }
    n = times.len();
    // type indices: arbitrary, repeated and no-op indices allowed
    let mut transitions: Vec<(i64, usize)> = Vec::with_capacity(n);
    let mut prev_idx = 0usize;
    for &t in &times {
        let idx = if rng.chance(1, 8) { prev_idx } else { rng.below(types.len() as u64) as usize };
        transitions.push((t, idx));
        prev_idx = idx;
    }
    let mut z = ZoneSpec { transitions, types, leaps, rule };
    // make the rule prescribe the last transition's type (C13, last clause)
    if z.rule.is_some() {
        let u = z.leaps.g(t_last);
        let want: Option<TypeSpec> = if u > i64::MIN as i128 && u < i64::MAX as i128 {
            match z.model().rule_type(u as i64) {
                Fwd::Type(t) => Some(t),
                _ => None,
            }
        } else {
            None
        };
        match want {
            Some(t) => {
                let idx = match z.types.iter().position(|x| *x == t) {
                    Some(i) => i,
                    None => {
                        z.types.push(t);
                        z.types.len() - 1
                    }
                };
                z.transitions[n - 1].1 = idx;
            }
            None => {
                z.rule = None; // cannot be made consistent: fall back to a table-only zone
            }
        }
    }
    z
}

/// rule-only zone: types [std] or [std, dst] as built from a TZ description
pub fn rule_only(a: &AltSpec) -> ZoneSpec {
    ZoneSpec { transitions: vec![], types: vec![a.std.clone(), a.dst.clone()], leaps: LeapTable::default(), rule: Some(RuleSpec::Alt(a.clone())) }
}

/// Instants worth probing for a zone: every transition instant -1/0/+1 (capped), extremes, random.
pub fn probe_instants(z: &ZoneSpec, rng: &mut Rng, max_transitions: usize, nrandom: usize) -> Vec<i64> {
    let mut v: Vec<i64> = vec![i64::MIN, i64::MIN + 1, i64::MAX, i64::MAX - 1, 0, cal::min_unix(), cal::max_unix()];
    let n = z.transitions.len();
    let mut idxs: Vec<usize> = vec![];
    if n <= max_transitions {
        idxs.extend(0..n);
    } else {
        idxs.extend([0, 1, n - 2, n - 1, n / 2]);
        for _ in 0..max_transitions {
            idxs.push(rng.below(n as u64) as usize);
        }
    }
    for k in idxs {
        let x = z.leaps.switch(z.transitions[k].0);
        for d in [-2i128, -1, 0, 1, 2] {
            let u = x + d;
            if u >= i64::MIN as i128 && u <= i64::MAX as i128 {
                v.push(u as i64);
            }
        }
    }
    for &(l, c) in z.leaps.0.iter().take(8).chain(z.leaps.0.last()) {
        for d in -4..=4i64 {
            if let Some(u) = l.checked_sub(c as i64).and_then(|x| x.checked_add(d)) {
                v.push(u);
            }
        }
    }
    if let Some(RuleSpec::Alt(a)) = &z.rule {
        let y0 = match z.transitions.last() {
            Some(&(t, _)) if t > cal::min_unix() / 2 && t < cal::max_unix() / 2 => cal::year_of_unix(t),
            _ => 2000,
        };
        for y in [y0 - 1, y0, y0 + 1, y0 + rng.range(2, 300)] {
            for inst in [a.s(y), a.e(y), cal::days_from_civil(y, 1, 1) * 86400] {
                v.extend([inst - 1, inst, inst + 1]);
            }
        }
    }
    let (lo, hi) = match (z.transitions.first(), z.transitions.last()) {
        (Some(&(a, _)), Some(&(b, _))) => (a.saturating_sub(100_000), b.saturating_add(100_000)),
        _ => (-4_000_000_000, 8_000_000_000),
    };
    for _ in 0..nrandom {
        v.push(if rng.chance(3, 4) { rng.range(lo, hi) } else { rng.i64_log() });
    }
    v
}

/// Local times (as civil seconds) worth searching: for sampled transitions X and every offset o of
/// the zone, X + o + delta with delta at the interval ends of the search; rule instants likewise;
/// New Year; random.
pub fn probe_locals(z: &ZoneSpec, rng: &mut Rng, max_transitions: usize, nrandom: usize) -> Vec<i64> {
    let mut v: Vec<i64> = vec![];
    let offs = z.offsets();
    let n = z.transitions.len();
    let mut xs: Vec<i64> = vec![];
    let mut idxs: Vec<usize> = vec![];
    if n <= max_transitions {
        idxs.extend(0..n);
    } else {
        idxs.extend([0, n - 1]);
        for _ in 0..max_transitions {
            idxs.push(rng.below(n as u64) as usize);
        }
    }
    for k in idxs {
        let x = z.leaps.switch(z.transitions[k].0);
        if x > i64::MIN as i128 && x < i64::MAX as i128 {
            xs.push(x as i64);
        }
    }
    if let Some(RuleSpec::Alt(a)) = &z.rule {
        let y0 = match z.transitions.last() {
            Some(&(t, _)) if t > cal::min_unix() / 2 && t < cal::max_unix() / 2 => cal::year_of_unix(z.leaps.g(t) as i64),
            _ => rng.range(1900, 2400),
        };
        for y in [y0 - 1, y0, y0 + 1, y0 + rng.range(2, 50)] {
            xs.push(a.s(y));
            xs.push(a.e(y));
            let ny = cal::days_from_civil(y, 1, 1) * 86400;
            v.extend([ny - 1, ny, ny + 1]);
        }
    }
    const DELTAS: [i64; 11] = [-1, 0, 1, -1800, 1800, -3599, 3599, -3600, 3600, -2, 2];
    for &x in &xs {
        for &o in &offs {
            for d in DELTAS {
                v.push(x.saturating_add(o as i64).saturating_add(d));
            }
        }
    }
    let (lo, hi) = match (xs.iter().min(), xs.iter().max()) {
        (Some(&a), Some(&b)) => (a.saturating_sub(200_000), b.saturating_add(200_000)),
        _ => (-4_000_000_000, 8_000_000_000),
    };
    for _ in 0..nrandom {
        v.push(rng.range(lo.max(cal::min_unix() / 2), hi.min(cal::max_unix() / 2).max(lo.max(cal::min_unix() / 2))));
    }
    // keep what can be written as a date with an i32 year, away from the range edge
    v.retain(|&c| c > cal::min_unix() + (1i64 << 33) && c < cal::max_unix() - (1i64 << 33));
    v
}
