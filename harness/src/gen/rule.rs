//! Rule generators: the real IANA footers, random rules over the 1151 day notations, and *tie*
//! rules (two rule instants coinciding) built on purpose: uniform random inputs never hit those.

use crate::core::Expect;
use crate::model::posix;
use crate::model::rule::{AltSpec, Day, RuleClass, TypeSpec, CYCLE_Y0};
use crate::model::zone::RuleSpec;
use crate::util::rng::Rng;

/// the 95 distinct non-empty footers of tzdata 2025b (posix + right trees of this image)
pub const IANA_FOOTERS: [&str; 95] = [
    "<+00>0<+02>-2,M3.5.0/1,M10.5.0/3",
    "<+01>-1",
    "<+02>-2",
    "<+0330>-3:30",
    "<+03>-3",
    "<+0430>-4:30",
    "<+04>-4",
    "<+0530>-5:30",
    "<+0545>-5:45",
    "<+05>-5",
    "<+0630>-6:30",
    "<+06>-6",
    "<+07>-7",
    "<+0845>-8:45",
    "<+08>-8",
    "<+09>-9",
    "<+1030>-10:30<+11>-11,M10.1.0,M4.1.0",
    "<+10>-10",
    "<+11>-11",
    "<+11>-11<+12>,M10.1.0,M4.1.0/3",
    "<+1245>-12:45<+1345>,M9.5.0/2:45,M4.1.0/3:45",
    "<+12>-12",
    "<+13>-13",
    "<+14>-14",
    "<-00>0",
    "<-01>1",
    "<-01>1<+00>,M3.5.0/0,M10.5.0/1",
    "<-02>2",
    "<-02>2<-01>,M3.5.0/-1,M10.5.0/0",
    "<-03>3",
    "<-03>3<-02>,M3.2.0,M11.1.0",
    "<-04>4",
    "<-04>4<-03>,M9.1.6/24,M4.1.6/24",
    "<-05>5",
    "<-06>6",
    "<-06>6<-05>,M9.1.6/22,M4.1.6/22",
    "<-07>7",
    "<-08>8",
    "<-0930>9:30",
    "<-09>9",
    "<-10>10",
    "<-11>11",
    "<-12>12",
    "ACST-9:30",
    "ACST-9:30ACDT,M10.1.0,M4.1.0/3",
    "AEST-10",
    "AEST-10AEDT,M10.1.0,M4.1.0/3",
    "AKST9AKDT,M3.2.0,M11.1.0",
    "AST4",
    "AST4ADT,M3.2.0,M11.1.0",
    "AWST-8",
    "CAT-2",
    "CET-1",
    "CET-1CEST,M3.5.0,M10.5.0/3",
    "CST-8",
    "CST5CDT,M3.2.0/0,M11.1.0/1",
    "CST6",
    "CST6CDT,M3.2.0,M11.1.0",
    "ChST-10",
    "EAT-3",
    "EET-2",
    "EET-2EEST,M3.4.4/50,M10.4.4/50",
    "EET-2EEST,M3.5.0,M10.5.0/3",
    "EET-2EEST,M3.5.0/0,M10.5.0/0",
    "EET-2EEST,M3.5.0/3,M10.5.0/4",
    "EET-2EEST,M4.5.5/0,M10.5.4/24",
    "EST5",
    "EST5EDT,M3.2.0,M11.1.0",
    "GMT0",
    "GMT0BST,M3.5.0/1,M10.5.0",
    "HKT-8",
    "HST10",
    "HST10HDT,M3.2.0,M11.1.0",
    "IST-1GMT0,M10.5.0,M3.5.0/1",
    "IST-2IDT,M3.4.4/26,M10.5.0",
    "IST-5:30",
    "JST-9",
    "KST-9",
    "MET-1MEST,M3.5.0,M10.5.0/3",
    "MSK-3",
    "MST7",
    "MST7MDT,M3.2.0,M11.1.0",
    "NST3:30NDT,M3.2.0,M11.1.0",
    "NZST-12NZDT,M9.5.0,M4.1.0/3",
    "PKT-5",
    "PST-8",
    "PST8PDT,M3.2.0,M11.1.0",
    "SAST-2",
    "SST11",
    "UTC0",
    "WAT-1",
    "WET0WEST,M3.5.0/1,M10.5.0",
    "WIB-7",
    "WIT-9",
    "WITA-8",
];

/// RFC 8536 / POSIX idioms that are not in the database but are documented ways of writing rules
pub const IDIOM_FOOTERS: [&str; 8] = [
    "EST5EDT,0/0,J365/25",        // permanent DST (RFC 8536 3.3.1)
    "XXX-2<+01>-1,0/0,J365/23",   // permanent "negative" DST
    "AAA3BBB,J1/0,J365/24",       // all year but written with J
    "WGT3WGST,M3.5.0/-2,M10.5.0/-1",
    "STD0DST-1,J100/2,J100/3",    // zero-length period (S = E every year)
    "NNN-1SSS,J60/0,59/1",        // S = E in common years only
    "QQQ8RRR,M3.1.0/2,J60/3",     // S = E when March 1 is a Sunday
    "AEST-10AEDT,M10.1.0/167,M4.1.0/-167",
];

pub fn iana_alt_rules() -> Vec<AltSpec> {
    let mut v = vec![];
    for f in IANA_FOOTERS.iter().chain(IDIOM_FOOTERS.iter()) {
        if let Expect::Must(RuleSpec::Alt(a)) = posix::parse(f.as_bytes(), true) {
            v.push(a);
        }
    }
    v
}

pub fn rand_day(rng: &mut Rng) -> Day {
    match rng.below(3) {
        0 => Day::J(if rng.chance(1, 4) { *rng.pick(&[1u16, 58, 59, 60, 61, 364, 365]) } else { rng.range(1, 365) as u16 }),
        1 => Day::N(if rng.chance(1, 4) { *rng.pick(&[0u16, 58, 59, 60, 364, 365]) } else { rng.range(0, 365) as u16 }),
        _ => Day::M(if rng.chance(1, 4) { *rng.pick(&[1u8, 2, 2, 12]) } else { rng.range(1, 12) as u8 }, rng.range(1, 5) as u8, rng.range(0, 6) as u8),
    }
}

pub fn rand_time(rng: &mut Rng) -> i32 {
    match rng.below(6) {
        0 => 7200,
        1 | 2 => (rng.range(-167, 167) * 3600) as i32,
        3 => rng.range(0, 86400) as i32,
        4 => *rng.pick(&[-604799, 604799, -86400, 86400, 0, -1, 1, 90000, 93600]),
        _ => rng.range(-604799, 604799) as i32,
    }
}

pub fn rand_rule_offset(rng: &mut Rng) -> i32 {
    match rng.below(5) {
        0 | 1 => (rng.range(-24, 25) * 3600) as i32,
        2 => (rng.range(-99, 103) * 900) as i32,
        3 => *rng.pick(&[-89999, 93599, 0, 1, -1, 3600, -3600]),
        _ => rng.range(-89999, 93599) as i32,
    }
}

fn names(rng: &mut Rng) -> (String, String) {
    let pool = ["STD", "DST", "EST", "EDT", "CET", "CEST", "NZST", "NZDT", "+03", "-0330", "ABCDEFG", "XYZ"];
    let a = pool[rng.below(pool.len() as u64) as usize];
    let mut b = pool[rng.below(pool.len() as u64) as usize];
    if a == b {
        b = "ALT";
    }
    (a.to_string(), b.to_string())
}

/// any rule within the offset/time windows (may be inconsistent / overlapping)
pub fn rand_alt(rng: &mut Rng) -> AltSpec {
    let (a, b) = names(rng);
    let std_off = rand_rule_offset(rng);
    let dst_off = if rng.chance(2, 3) { (std_off + 3600).clamp(-89999, 93599) } else { rand_rule_offset(rng) };
    AltSpec { std: TypeSpec { off: std_off, dst: false, desig: Some(a) }, dst: TypeSpec { off: dst_off, dst: true, desig: Some(b) }, start: rand_day(rng), start_time: rand_time(rng), end: rand_day(rng), end_time: rand_time(rng) }
}

pub fn accepted_by_statement(a: &AltSpec) -> bool {
    let (s, d, t) = a.offsets_ok();
    s && d && t && a.consistent()
}

/// a rule the C11 statement accepts and whose yearly instants interleave (C04's domain)
pub fn gen_interleaving(rng: &mut Rng) -> (AltSpec, RuleClass) {
    loop {
        let a = if rng.chance(1, 3) { gen_tie(rng) } else { rand_alt(rng) };
        if !accepted_by_statement(&a) {
            continue;
        }
        let c = a.class();
        if c == RuleClass::North || c == RuleClass::South {
            return (a, c);
        }
    }
}

/// Tie constructor: shift the end time so that E(y0) coincides with S(y0) or S(y0+1) (or S with
/// E(y0+1)) for one year of the cycle; for J/n pairs this gives coincidences in all or many years.
pub fn gen_tie(rng: &mut Rng) -> AltSpec {
    for _ in 0..64 {
        let mut a = rand_alt(rng);
        if rng.chance(1, 2) {
            // same-notation-family days near each other make ties reachable within the +-7d window
            a.end = match a.start {
                Day::J(n) => *rng.pick(&[Day::J(n), Day::N(n.saturating_sub(1)), Day::N(n.min(365)), Day::J((n % 365) + 1)]),
                Day::N(n) => *rng.pick(&[Day::N(n), Day::J(n.clamp(1, 365)), Day::J((n + 1).clamp(1, 365))]),
                Day::M(m, w, d) => *rng.pick(&[Day::M(m, w, d), Day::M(m, w, (d + 1) % 7), Day::M(m, (w % 5) + 1, d), Day::J(((m as u16 - 1) * 30 + 1).clamp(1, 365))]),
            };
        }
        if rng.chance(1, 3) {
            // year-end wrap: start near Jan 1, end near Dec 31 (the permanent-DST idiom)
            let (w1, w2) = (rng.below(7) as u8, rng.below(7) as u8);
            a.start = *rng.pick(&[Day::N(0), Day::J(1), Day::M(1, 1, w1)]);
            a.end = *rng.pick(&[Day::J(365), Day::N(364), Day::N(365), Day::M(12, 5, w2)]);
        }
        let y0 = CYCLE_Y0 + rng.below(400) as i64;
        let target = match rng.below(3) {
            0 => a.s(y0),
            1 => a.s(y0 + 1),
            _ => a.s(y0) + *rng.pick(&[-1i64, 1, 3600, -3600]),
        };
        // E(y0) = end_day*86400 + end_time - dst_off  =>  end_time = target - end_day*86400 + dst_off
        let et = target - a.end.days(y0) * 86400 + a.dst.off as i64;
        if et.abs() < 604800 {
            a.end_time = et as i32;
            return a;
        }
    }
    rand_alt(rng)
}
