//! C11: the DST rule constructor accepts exactly the rules whose start/end order never flips.
//!
//! Refuting observations: `AlternateTime::new` accepting a rule for which the brute-force definition
//! (min/max day differences over a full 400-year cycle) says "inconsistent" or whose offsets/times
//! leave their windows; refusing one that satisfies all; refusing with another error than the one
//! named for the first violated condition.

use crate::core::{run_cases, run_enum, Ctx, Fnv, Local, Report};
use crate::facade::{rule_err, E};
use crate::model::rule::{AltSpec, Day, DayTables, TypeSpec};
use crate::util::json::Json;
use tz::timezone::{AlternateTime, LocalTimeType, RuleDay};

fn expected(std_off: i32, dst_off: i32, st: i32, et: i32, consistent: bool) -> Result<(), E> {
    let w = |o: i32| (o as i64) > -25 * 3600 && (o as i64) < 26 * 3600;
    if !w(std_off) {
        return Err(E::InvalidStdUtcOffset);
    }
    if !w(dst_off) {
        return Err(E::InvalidDstUtcOffset);
    }
    if !((st as i64).abs() < 7 * 86400 && (et as i64).abs() < 7 * 86400) {
        return Err(E::InvalidDstStartEndTime);
    }
    if !consistent {
        return Err(E::InconsistentRule);
    }
    Ok(())
}

pub struct Pre {
    tz_days: Vec<RuleDay>,
    tables: DayTables,
}

impl Pre {
    pub fn new(tables: DayTables) -> Pre {
        let tz_days: Vec<RuleDay> = tables.days.iter().map(|d| d.to_tz().unwrap()).collect();
        Pre { tz_days, tables }
    }
}

/// one decision with every argument read from the generator (libFuzzer target `model`: from the tape)
pub fn fuzz_case(l: &mut Local, pre: &Pre, rng: &mut crate::util::rng::Rng) {
    let n = pre.tables.days.len();
    let si = rng.below(n as u64) as usize;
    let ei = rng.below(n as u64) as usize;
    let diffs = pre.tables.diffs(si, ei);
    let (so, d_o, st, et) = match rng.below(3) {
        0 => {
            // a d near a breakpoint at a translation near an extreme or a whole week
            let d = rng.range(-17, 17) * 86400 + rng.range(-2, 2);
            let us = *rng.pick(&[U_MAX, U_MIN, 604_800, -604_800, 0, 86_400, -86_400]) + rng.range(-2, 2) + if rng.chance(1, 2) { d } else { 0 };
            match realise_at(us, d) {
                Some(r) => r,
                None => (0, 0, 0, 0),
            }
        }
        1 => {
            let o = |rng: &mut crate::util::rng::Rng| *rng.pick(&[-90_000i64, 93_600, 0, 3600, -3600]) + rng.range(-2, 2);
            let t = |rng: &mut crate::util::rng::Rng| *rng.pick(&[-604_800i64, 604_800, 0, 7200, 86_400]) + rng.range(-2, 2);
            (o(rng) as i32, o(rng) as i32, t(rng) as i32, t(rng) as i32)
        }
        _ => ((rng.next() as i32).max(i32::MIN + 1) >> rng.below(20), (rng.next() as i32).max(i32::MIN + 1) >> rng.below(20), (rng.next() as i32) >> rng.below(16), (rng.next() as i32) >> rng.below(16)),
    };
    decide(l, pre, si, ei, &diffs, so, d_o, st, et);
}

#[allow(clippy::too_many_arguments)]
#[inline]
fn decide(l: &mut Local, pre: &Pre, si: usize, ei: usize, diffs: &[(i64, i64); 3], std_off: i32, dst_off: i32, st: i32, et: i32) {
    let d = (st as i64 - std_off as i64) - (et as i64 - dst_off as i64);
    let exp = expected(std_off, dst_off, st, et, DayTables::consistent(diffs, d));
    let std = LocalTimeType::with_ut_offset(std_off).unwrap();
    let dst = LocalTimeType::with_ut_offset(dst_off).unwrap();
    let got = AlternateTime::new(std, dst, pre.tz_days[si], st, pre.tz_days[ei], et).map(|_| ()).map_err(|e| rule_err(&e));
    if got != exp {
        let spec = AltSpec { std: TypeSpec::new(std_off, false, None), dst: TypeSpec::new(dst_off, true, None), start: pre.tables.days[si], start_time: st, end: pre.tables.days[ei], end_time: et };
        l.violation(
            if got.is_ok() { "rule constructor: accepts a rule the statement refuses" } else if exp.is_ok() { "rule constructor: refuses a rule the statement accepts" } else { "rule constructor: wrong error for the violated condition" },
            format!("AlternateTime::new({})", spec),
            format!("{:?}; d = {} s, day-difference ranges over the 400-year cycle S(y)-E(y):{:?} S(y+1)-E(y):{:?} S(y)-E(y+1):{:?}", exp, d, diffs[0], diffs[1], diffs[2]),
            format!("{:?}", got),
        );
    }
    match exp {
        Ok(()) => l.class("accepted"),
        Err(E::InconsistentRule) => l.class("refused_inconsistent"),
        Err(_) => l.class("refused_window"),
    }
}

/// the breakpoints of the scalar d: k*86400 + e
fn d_values(kmax: i64) -> Vec<i64> {
    let mut v = vec![];
    for k in -kmax..=kmax {
        for e in [-1i64, 0, 1] {
            let d = k * 86400 + e;
            if d.abs() <= 16 * 86400 + 3 * 3600 {
                v.push(d);
            }
        }
    }
    v
}

/// realise d through the times alone (offsets 0): d = st - et with |st|,|et| < 7d
fn realise_times(d: i64) -> Option<(i32, i32)> {
    let st = (d / 2).clamp(-604799, 604799);
    let et = st - d;
    if et.abs() < 604800 {
        Some((st as i32, et as i32))
    } else {
        None
    }
}

/// realise d through a non-zero offset pair as well: d = (st - std) - (et - dst)
fn realise_offsets(d: i64) -> Option<(i32, i32, i32, i32)> {
    // std = -24h, dst = +25h contributes +49h to d
    for (std, dst) in [(-86400i64, 90000i64), (90000, -86400), (3600, -3600), (-18000, -14400)] {
        let rest = d - (dst - std); // = st - et
        let st = (rest / 2).clamp(-604799, 604799);
        let et = st - rest;
        if et.abs() < 604800 {
            return Some((std as i32, dst as i32, st as i32, et as i32));
        }
    }
    None
}

/// largest / smallest value of `time - ut_offset` that passes the windows
const U_MAX: i64 = 604_799 + 89_999;
const U_MIN: i64 = -604_799 - 93_599;

/// realise d with the absolute UTC-scale day times `us = start_time - std_offset`, `ue = end_time - dst_offset = us - d`
/// translated to a chosen place: the statement makes acceptance a function of d alone, so it must not move with the
/// translation (a shortcut that looks at one absolute value, e.g. "farther than a week from the year boundary", does)
fn realise_at(us: i64, d: i64) -> Option<(i32, i32, i32, i32)> {
    let ue = us - d;
    if !(U_MIN..=U_MAX).contains(&us) || !(U_MIN..=U_MAX).contains(&ue) {
        return None;
    }
    let st = us.clamp(-604_799, 604_799);
    let et = ue.clamp(-604_799, 604_799);
    Some(((st - us) as i32, (et - ue) as i32, st as i32, et as i32))
}

/// the translations tried for one d: start value at either extreme, end value at either extreme, and either value on
/// both sides of a whole week
fn translations(d: i64, all: bool) -> Vec<i64> {
    let mut v = vec![U_MAX, U_MIN, U_MIN + d, U_MAX + d];
    if all {
        for w in [604_800i64, -604_800] {
            for e in [-1i64, 0, 1] {
                v.push(w + e);
                v.push(w + e + d);
            }
        }
    }
    v.sort();
    v.dedup();
    v
}

pub fn run(ctx: &Ctx) -> Report {
    let mut rep = Report::new("C11");
    rep.rule = "cases = AlternateTime::new decisions. Enumerated: all 1151 x 1151 = 1 324 801 ordered (start day, end day) pairs x breakpoints of the scalar d = (start_time - std_offset) - (end_time - dst_offset): quick k*86400+e for k in {-9,-1,0,1,9}, e in {-1,0,1}; thorough every k with |d| <= 16d3h (105 values), each d realised twice (through the times alone and through a non-zero offset pair) and at the extreme translations of the two UTC-scale day times (start or end value at the largest / smallest value the windows admit; thorough: also on both sides of a whole week) to observe that acceptance depends on d only. \
                Oracle: brute-force definition - min/max over a full 400-year cycle of the day differences behind S(y)-E(y), S(y+1)-E(y), S(y)-E(y+1); error variant = first violated condition. Window edges (+-25h/26h, +-7d) in all four arguments on a sample of pairs. distinct_nontrivial = decisions (all distinct by construction)."
        .into();
    rep.required_classes = vec!["accepted", "refused_inconsistent", "refused_window", "pair_J_J", "pair_J_n", "pair_J_M", "pair_n_J", "pair_n_n", "pair_n_M", "pair_M_J", "pair_M_n", "pair_M_M", "week_5", "february", "same_month_M_M", "adjacent_month_M_M", "utc_day_time_beyond_a_week"];
    if let Err(e) = crate::mon::c03::self_tests() {
        rep.inconclusive.push(format!("model self-test failed: {}", e));
        return rep;
    }
    let tables = if ctx.scale < 1.0 { DayTables::with_stride(97) } else { DayTables::new() };
    let pre = Pre::new(tables);
    let n = pre.tables.days.len();
    let ds: Vec<i64> = if ctx.quick() && ctx.scale < 1.0 {
        let mut v = vec![];
        for k in [-9i64, -1, 0, 1, 9] {
            for e in [-1i64, 0, 1] {
                v.push(k * 86400 + e);
            }
        }
        v
    } else {
        d_values(16)
    };
    // wl 1: one case per start day: all end days x all d
    run_enum(ctx, &mut rep, 1, n as u64, |l, _rng, si| {
        let si = si as usize;
        let mut cnt = 0u64;
        let step = 1;
        let mut ei = 0;
        while ei < n {
            let diffs = pre.tables.diffs(si, ei);
            let (a, b) = (pre.tables.days[si], pre.tables.days[ei]);
            let pk = ["J", "n", "M"];
            l.class(match (a.kind(), b.kind()) {
                (0, 0) => "pair_J_J",
                (0, 1) => "pair_J_n",
                (0, 2) => "pair_J_M",
                (1, 0) => "pair_n_J",
                (1, 1) => "pair_n_n",
                (1, 2) => "pair_n_M",
                (2, 0) => "pair_M_J",
                (2, 1) => "pair_M_n",
                _ => "pair_M_M",
            });
            let _ = pk;
            if let (Day::M(m1, w1, _), Day::M(m2, w2, _)) = (a, b) {
                if w1 == 5 || w2 == 5 {
                    l.class("week_5");
                }
                if m1 == 2 || m2 == 2 {
                    l.class("february");
                }
                if m1 == m2 {
                    l.class("same_month_M_M");
                } else if (m1 as i32 - m2 as i32).rem_euclid(12) == 1 || (m2 as i32 - m1 as i32).rem_euclid(12) == 1 {
                    l.class("adjacent_month_M_M");
                }
            }
            for &d in &ds {
                if let Some((st, et)) = realise_times(d) {
                    decide(l, &pre, si, ei, &diffs, 0, 0, st, et);
                    cnt += 1;
                }
                if !ctx.quick() || d % 86400 == 0 {
                    if let Some((so, d_o, st, et)) = realise_offsets(d) {
                        decide(l, &pre, si, ei, &diffs, so, d_o, st, et);
                        cnt += 1;
                    }
                }
                for us in translations(d, !ctx.quick()) {
                    if let Some((so, d_o, st, et)) = realise_at(us, d) {
                        decide(l, &pre, si, ei, &diffs, so, d_o, st, et);
                        l.class("utc_day_time_beyond_a_week");
                        cnt += 1;
                    }
                }
            }
            ei += step;
        }
        l.op_n("AlternateTime::new", cnt);
        l.distinct_enumerated += cnt;
        if si % 400 == 7 {
            l.sample(|| {
                let diffs = pre.tables.diffs(si, 3);
                Json::obj().set("start", pre.tables.days[si].posix()).set("end", pre.tables.days[3].posix()).set("day_difference_ranges", format!("{:?}", diffs)).set("d_values", ds.len())
            });
        }
    });
    // wl 2: window edges and random arguments on random pairs
    let per = ctx.inner(200);
    run_cases(ctx, &mut rep, 2, ctx.n(2000, 100_000), |l, rng, _| {
        const OFFS: [i32; 14] = [-90001, -90000, -89999, 93599, 93600, 93601, 0, i32::MAX, i32::MIN + 1, 3600, -3600, 86400, -86400, 1];
        const TIMES: [i32; 12] = [-604801, -604800, -604799, 604799, 604800, 604801, 0, 7200, i32::MAX, i32::MIN, -1, 86400];
        for _ in 0..per {
            let si = rng.below(n as u64) as usize;
            let ei = rng.below(n as u64) as usize;
            let diffs = pre.tables.diffs(si, ei);
            let pick_off = |rng: &mut crate::util::rng::Rng| if rng.chance(1, 2) { *rng.pick(&OFFS) } else { rng.range(-100_000, 100_000) as i32 };
            let pick_time = |rng: &mut crate::util::rng::Rng| if rng.chance(1, 2) { *rng.pick(&TIMES) } else { rng.range(-700_000, 700_000) as i32 };
            let (mut so, mut d_o, mut st, mut et) = (pick_off(rng), pick_off(rng), pick_time(rng), pick_time(rng));
            if rng.chance(1, 3) {
                // a breakpoint of d (or a random d) at a random translation
                let d = if rng.chance(1, 2) { rng.range(-16, 17) * 86400 + rng.range(-1, 2) } else { rng.range(-1_400_000, 1_400_000) };
                let us = if rng.chance(1, 2) { rng.range(U_MIN, U_MAX + 1) } else { *rng.pick(&[U_MAX, U_MIN, 604_800, -604_800, 604_799, -604_799, 604_801, -604_801]) + rng.range(-1, 2) };
                if let Some(r) = realise_at(us, d) {
                    (so, d_o, st, et) = r;
                }
            }
            decide(l, &pre, si, ei, &diffs, so, d_o, st, et);
            l.distinct_hash(Fnv::new().i(si as i64 * 2000 + ei as i64).i(so as i64).i(d_o as i64).i(st as i64).i(et as i64).get());
        }
        l.op_n("AlternateTime::new", per);
    });
    if ctx.scale >= 1.0 {
        rep.exhaustive = true;
        rep.notes.push("exhaustive for the quotient named in the statement: all ordered day-notation pairs x all breakpoints of d with |d| <= 16d3h; 'all years' decided on a full 400-year cycle".into());
    }
    rep
}
