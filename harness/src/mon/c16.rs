//! C16: total nanoseconds <-> (seconds, nanoseconds) is exact and floor-based.
//!
//! Refuting observations: `from_total_nanoseconds(n)` != `from_timespec(floor(n / 1e9), n mod 1e9)`;
//! `total_nanoseconds()` not giving n back; Ok outside / Err inside the seconds range; ns >= 1e9
//! accepted where fields are validated (UtcDateTime::new, DateTime::new, find, find_n).

use crate::core::{run_cases, run_enum, Ctx, Fnv, Local, Report};
use crate::facade::{self, E};
use crate::model::cal;
use crate::util::json::Json;
use tz::{LocalTimeType, TimeZoneRef, UtcDateTime};

const G: i128 = 1_000_000_000;

/// floor division with explicit sign handling (deliberately not div_euclid)
pub fn split(n: i128) -> (i128, u32) {
    let q = n / G; // truncates toward zero
    let r = n - q * G;
    if r < 0 {
        (q - 1, (r + G) as u32)
    } else {
        (q, r as u32)
    }
}

pub fn check(l: &mut Local, n: i128) {
    let (secs, ns) = split(n);
    let in_range = secs >= cal::min_unix() as i128 && secs <= cal::max_unix() as i128;
    if n < 0 && ns != 0 {
        l.class("negative_non_multiple");
    }
    if n < 0 && ns == 0 {
        l.class("negative_multiple");
    }
    if (-G..G).contains(&n) {
        l.class("zero_crossing");
    }
    if secs == cal::min_unix() as i128 || secs == cal::max_unix() as i128 || secs == cal::min_unix() as i128 - 1 || secs == cal::max_unix() as i128 + 1 {
        l.class("range_edge");
    }
    if n == i128::MIN || n == i128::MAX {
        l.class("i128_extreme");
    }
    if secs < i64::MIN as i128 || secs > i64::MAX as i128 {
        l.class("seconds_beyond_i64");
    }
    let r = UtcDateTime::from_total_nanoseconds(n).map_err(|e| facade::tz_err(&e));
    facade::ev("UtcDateTime::from_total_nanoseconds", [(n >> 64) as i64, n as i64, 0, 0], r.is_ok(), 0);
    let input = || format!("UtcDateTime::from_total_nanoseconds({})", n);
    match (&r, in_range) {
        (Ok(dt), true) => {
            let reference = facade::utc_from_timespec(secs as i64, ns);
            match reference {
                Ok(refdt) => {
                    if refdt != *dt {
                        l.violation("nanosecond split: differs from from_timespec(floor, mod)", input(), facade::fmt_utc(&refdt), facade::fmt_utc(dt));
                    }
                }
                Err(e) => l.violation("nanosecond split: from_timespec refuses an in-range pair", format!("from_timespec({}, {})", secs, ns), "Ok".into(), format!("Err({:?})", e)),
            }
            // absolute check against the calendar model as well (so a common-mode error in both paths is seen)
            let c = cal::civil_from_unix(secs as i64);
            if dt.year() as i64 != c.year || dt.month() != c.month || dt.month_day() != c.day || dt.hour() != c.hour || dt.minute() != c.minute || dt.second() != c.second || dt.nanoseconds() != ns {
                l.violation("nanosecond split: wrong fields", input(), format!("{} ns={}", c, ns), facade::fmt_utc(dt));
            }
            if dt.total_nanoseconds() != n {
                l.violation("nanosecond split: total_nanoseconds() does not give the count back", input(), format!("{}", n), format!("{}", dt.total_nanoseconds()));
            }
            if dt.unix_time() as i128 != secs {
                l.violation("nanosecond split: seconds not rounded toward negative infinity", input(), format!("{}", secs), format!("{}", dt.unix_time()));
            }
        }
        (Ok(dt), false) => l.violation("nanosecond split: accepted outside the seconds range", input(), "Err".into(), facade::fmt_utc(dt)),
        (Err(e), true) => l.violation("nanosecond split: refused inside the range", input(), "Ok".into(), format!("Err({:?})", e)),
        (Err(_), false) => {}
    }
    // zoned variants: must equal the (seconds, nanoseconds) constructors
    let off = ((n as i64).rem_euclid(7) - 3) as i32 * 3600;
    let ltt = LocalTimeType::with_ut_offset(off).unwrap();
    let a = facade::dt_from_total_ns_and_local(n, ltt);
    let b = if secs >= i64::MIN as i128 && secs <= i64::MAX as i128 { facade::dt_from_timespec_and_local(secs as i64, ns, ltt) } else { Err(E::OutOfRange) };
    cmp_dt(l, "DateTime::from_total_nanoseconds_and_local", n, &a, &b);
    let a = facade::dt_from_total_ns(n, TimeZoneRef::utc());
    let b = if secs >= i64::MIN as i128 && secs <= i64::MAX as i128 { facade::dt_from_timespec(secs as i64, ns, TimeZoneRef::utc()) } else { Err(E::OutOfRange) };
    cmp_dt(l, "DateTime::from_total_nanoseconds", n, &a, &b);
    if let Ok(d) = &a {
        if d.total_nanoseconds() != n {
            l.violation("nanosecond split: DateTime::total_nanoseconds() does not give the count back", format!("DateTime::from_total_nanoseconds({}, utc)", n), format!("{}", n), format!("{}", d.total_nanoseconds()));
        }
    }
}

fn cmp_dt(l: &mut Local, name: &str, n: i128, a: &Result<tz::DateTime, E>, b: &Result<tz::DateTime, E>) {
    match (a, b) {
        (Ok(x), Ok(y)) => {
            let same = x.unix_time() == y.unix_time()
                && x.nanoseconds() == y.nanoseconds()
                && x.year() == y.year()
                && x.month() == y.month()
                && x.month_day() == y.month_day()
                && x.hour() == y.hour()
                && x.minute() == y.minute()
                && x.second() == y.second()
                && x.local_time_type() == y.local_time_type();
            if !same {
                l.violation("nanosecond split: zoned constructor differs from the (seconds, ns) one", format!("{}({})", name, n), facade::fmt_dt(y), facade::fmt_dt(x));
            }
        }
        (Err(_), Err(_)) => {}
        (x, y) => l.violation(
            "nanosecond split: zoned constructor accepts/refuses differently from the (seconds, ns) one",
            format!("{}({})", name, n),
            format!("{:?}", y.as_ref().map(facade::fmt_dt)),
            format!("{:?}", x.as_ref().map(facade::fmt_dt)),
        ),
    }
}

/// ns >= 1e9 refused wherever fields are validated
pub fn check_ns_validation(l: &mut Local, ns: u32, y: i32) {
    let expect_ok = ns < 1_000_000_000;
    let ltt = LocalTimeType::with_ut_offset(3600).unwrap();
    // the search validates its arguments on every path: no table and no rule (UTC), a table only, a table with a
    // fixed rule, a DST rule only
    use tz::timezone::{AlternateTime, Julian1WithoutLeap, RuleDay, Transition, TransitionRule};
    let std = LocalTimeType::new(3600, false, Some(b"SSS")).unwrap();
    let dst = LocalTimeType::new(7200, true, Some(b"DDD")).unwrap();
    let types = [std, dst];
    let transitions = [Transition::new(-1_000_000, 1), Transition::new(0, 0)];
    let none: Option<TransitionRule> = None;
    let fixed = Some(TransitionRule::Fixed(std));
    let alt = Some(TransitionRule::Alternate(AlternateTime::new(std, dst, RuleDay::Julian1WithoutLeap(Julian1WithoutLeap::new(80).unwrap()), 7200, RuleDay::Julian1WithoutLeap(Julian1WithoutLeap::new(300).unwrap()), 7200).unwrap()));
    let tzs = [
        TimeZoneRef::utc(),
        TimeZoneRef::new(&transitions, &types, &[], &none).unwrap(),
        TimeZoneRef::new(&transitions, &types, &[], &fixed).unwrap(),
        TimeZoneRef::new(&[], &types, &[], &alt).unwrap(),
        TimeZoneRef::new(&transitions, &types, &[], &alt).unwrap_or(TimeZoneRef::utc()),
    ];
    let mut results: Vec<(String, bool)> = vec![];
    // the nanosecond argument is refused whatever the other (valid) fields are: an ordinary day, the days whose
    // validity depends on the year or the month (Feb 29 of a leap year, Feb 28, the 30th / 31st), the first and last
    // second of the year, second 60
    let leap = (y % 4 == 0 && y % 100 != 0) || y % 400 == 0;
    let mut dates: Vec<(u8, u8, u8, u8, u8)> = vec![(6, 15, 12, 0, 0), (12, 25, 12, 0, 0), (2, 28, 23, 59, 59), (1, 1, 0, 0, 0), (12, 31, 23, 59, 60), (4, 30, 1, 2, 3), (1, 31, 0, 0, 60)];
    if leap {
        dates.push((2, 29, 12, 30, 15));
        dates.push((2, 29, 23, 59, 60));
        l.class("ns_validation_on_feb_29");
    }
    for &(mo, d, h, mi, sec) in &dates {
        results.push((format!("UtcDateTime::new({}, {}, {}, {}, {}, {}", y, mo, d, h, mi, sec), facade::utc_new(y, mo, d, h, mi, sec, ns).is_ok()));
        results.push((format!("DateTime::new({}, {}, {}, {}, {}, {}", y, mo, d, h, mi, sec), facade::dt_new(y, mo, d, h, mi, sec, ns, ltt).is_ok()));
    }
    for tz in tzs {
        // a rule-less table has no type after its last transition: search a date it covers (1969) as well
        for (yy, mo, d, h, mi, sec) in dates.iter().map(|&(mo, d, h, mi, sec)| (y, mo, d, h, mi, sec)).chain([(1969, 12, 25, 12, 0, 0), (1968, 2, 29, 12, 0, 0)]) {
            let f = facade::find(yy, mo, d, h, mi, sec, ns, tz);
            let mut buf = [None; 2];
            let g = facade::find_n(&mut buf, yy, mo, d, h, mi, sec, ns, tz).map(|r| r.count());
            // an accepted search may be empty (no type there); a refused one must be refused for the nanoseconds
            results.push((format!("DateTime::find({}, {}, {}, {}, {}, {}", yy, mo, d, h, mi, sec), f.is_ok()));
            results.push((format!("DateTime::find_n({}, {}, {}, {}, {}, {}", yy, mo, d, h, mi, sec), g.is_ok()));
            if let Ok(list) = &f {
                for k in list.clone().into_inner() {
                    if let tz::datetime::FoundDateTimeKind::Normal(d) = k {
                        if d.nanoseconds() >= 1_000_000_000 {
                            l.violation("nanosecond argument validation: the search returned a value with nanoseconds >= 1e9", format!("DateTime::find(.., ns = {})", ns), "nanoseconds() < 1e9".into(), facade::fmt_dt(&d));
                        }
                    }
                }
            }
        }
    }
    for (name, ok) in results {
        if ok != expect_ok {
            l.violation("nanosecond argument validation", format!("{}, ns = {}, ..)", name, ns), if expect_ok { "Ok".into() } else { "Err".into() }, if ok { "Ok".into() } else { "Err".into() });
        }
    }
    l.class(if expect_ok { "ns_below_1e9_accepted" } else { "ns_at_or_above_1e9_refused" });
}

pub fn edges() -> Vec<i128> {
    let mut v = vec![];
    let ks: [i128; 16] = [
        0,
        1,
        -1,
        2,
        -2,
        cal::min_unix() as i128,
        cal::min_unix() as i128 - 1,
        cal::min_unix() as i128 + 1,
        cal::max_unix() as i128,
        cal::max_unix() as i128 + 1,
        cal::max_unix() as i128 - 1,
        i64::MIN as i128,
        i64::MAX as i128,
        i64::MIN as i128 - 1,
        i64::MAX as i128 + 1,
        951868800,
    ];
    for k in ks {
        for e in [-2i128, -1, 0, 1, 2, 999_999_999, -999_999_999, 500_000_000] {
            v.push(k * G + e);
        }
    }
    for e in 0..4 {
        v.push(i128::MIN + e);
        v.push(i128::MAX - e);
    }
    // every power of two as a nanosecond count (what a narrower intermediate type would wrap at), both signs, +-2;
    // the same around the second that contains +-2^63 ns, with every kind of fractional part
    for k in 0..=126u32 {
        for e in [-2i128, -1, 0, 1, 2] {
            v.push((1i128 << k) + e);
            v.push(-(1i128 << k) + e);
        }
    }
    // second counts that are k * 2^64 away from an in-range one (what a narrowing conversion to i64 would wrap to)
    for k in [1i128, -1, 2, -2, 3, 1 << 20, 9_223_372_036, -9_223_372_036] {
        for s_in in [0i128, cal::min_unix() as i128, cal::max_unix() as i128, 951868800, -1] {
            for frac in [0i128, 999_999_999] {
                v.push((k * (1i128 << 64) + s_in) * G + frac);
            }
        }
    }
    for s in [9_223_372_036i128, -9_223_372_037, 9_223_372_037, -9_223_372_036, 4_294_967_296, -4_294_967_296, 2_147_483_648, -2_147_483_648] {
        for frac in [0i128, 1, 854_775_807, 854_775_808, 854_775_809, 145_224_192, 145_224_191, 999_999_999] {
            v.push(s * G + frac);
        }
    }
    v
}

pub fn run(ctx: &Ctx) -> Report {
    let mut rep = Report::new("C16");
    rep.rule = "cases = i128 nanosecond counts n; oracle = floor division with explicit sign handling in i128, compared with from_timespec(floor, mod), with M-cal fields, with total_nanoseconds() and with the zoned constructors (fixed offsets, UTC, and generated zones: counts within 2 s of every switch instant with fractional parts 0 / 1 / 999 999 999 / random). \
                Enumerated: k*1e9 + e for k at 0, +-1, +-2, both range ends +-1, i64 extremes +-1, e in {0, +-1, +-2, +-999999999, 5e8}; i128 extremes; ns arguments around 1e9 for the validating constructors. Random: half log-uniform, half uniform in the success range, both signs. \
                distinct_nontrivial = distinct counts n."
        .into();
    rep.required_classes = vec![
        "negative_non_multiple",
        "negative_multiple",
        "zero_crossing",
        "range_edge",
        "i128_extreme",
        "seconds_beyond_i64",
        "ns_below_1e9_accepted",
        "ns_at_or_above_1e9_refused",
        "ns_validation_on_feb_29",
        "zone_constructor_negative_fractional_near_switch",
    ];
    if let Err(e) = cal::self_test() {
        rep.inconclusive.push(format!("model self-test failed: {}", e));
        return rep;
    }
    let ed = edges();
    run_enum(ctx, &mut rep, 1, ed.len() as u64, |l, _rng, i| {
        let n = ed[i as usize];
        check(l, n);
        l.op_n("from_total_nanoseconds (3 constructors)", 3);
        l.distinct_hash(Fnv::new().i(n as i64).i((n >> 64) as i64).get());
        if i % 37 == 3 {
            l.sample(|| Json::obj().set("call", format!("UtcDateTime::from_total_nanoseconds({})", n)).set("observed", format!("{:?}", UtcDateTime::from_total_nanoseconds(n).map(|d| facade::fmt_utc(&d)).map_err(|e| facade::tz_err(&e)))));
        }
    });
    let per = ctx.inner(500);
    run_cases(ctx, &mut rep, 2, ctx.n(20_000, 400_000), |l, rng, _| {
        for _ in 0..per {
            let n: i128 = match rng.below(4) {
                0 => rng.range(cal::min_unix(), cal::max_unix()) as i128 * G + rng.below(1_000_000_000) as i128,
                1 => (rng.i64_log() as i128) * (if rng.chance(1, 2) { 1 } else { G }) + rng.range(-2, 2) as i128,
                2 => ((rng.next() as i128) << 64 | rng.next() as i128) >> rng.below(100),
                _ => -(rng.range(0, cal::max_unix()) as i128 * G + rng.below(1_000_000_000) as i128),
            };
            check(l, n);
            l.distinct_hash(Fnv::new().i(n as i64).i((n >> 64) as i64).get());
        }
        l.op_n("from_total_nanoseconds (3 constructors)", 3 * per);
    });
    // wl 4: the zone-taking constructor on generated zones: counts within two seconds of every switch instant of
    // the zone (table transitions on the UTC scale, leap records), with every kind of fractional part, on both
    // sides of the epoch; must equal from_timespec(floor, mod, zone) in instant, fields and local time type
    let zcfg = crate::gen::zone::ZoneCfg::lookup();
    run_cases(ctx, &mut rep, 4, ctx.n(20_000, 400_000), |l, rng, _| {
        let z = crate::gen::zone::gen_zone(rng, &zcfg);
        let b = match crate::mon::common::build(&z) {
            Ok(b) => b,
            Err(_) => return,
        };
        let tzr = b.tz.as_ref();
        let mut instants: Vec<i64> = vec![];
        for &(t, _) in z.transitions.iter().take(ctx.inner(12) as usize) {
            let x = z.leaps.switch(t);
            if x > i64::MIN as i128 + 4 && x < i64::MAX as i128 - 4 {
                instants.push(x as i64);
            }
        }
        for &(t, _) in z.leaps.0.iter().take(3) {
            instants.push(t);
        }
        instants.push(0);
        instants.push(rng.range(-4_000_000_000, 4_000_000_000));
        let mut k = 0;
        for x in instants {
            for ds in [-2i64, -1, 0, 1] {
                for frac in [0u32, 1, 999_999_999, rng.below(1_000_000_000) as u32] {
                    let n = (x as i128 + ds as i128) * G + frac as i128;
                    let secs = n.div_euclid(G);
                    let ns = n.rem_euclid(G) as u32;
                    let a = facade::dt_from_total_ns(n, tzr);
                    let bb = if secs >= i64::MIN as i128 && secs <= i64::MAX as i128 { facade::dt_from_timespec(secs as i64, ns, tzr) } else { Err(E::OutOfRange) };
                    cmp_dt(l, "DateTime::from_total_nanoseconds(.., generated zone)", n, &a, &bb);
                    if let Ok(d) = &a {
                        if d.total_nanoseconds() != n {
                            l.violation(
                                "nanosecond split: DateTime::total_nanoseconds() does not give the count back",
                                format!("DateTime::from_total_nanoseconds({}, {})", n, z.describe()),
                                format!("{}", n),
                                format!("{}", d.total_nanoseconds()),
                            );
                        }
                        if n < 0 && frac != 0 {
                            l.class("zone_constructor_negative_fractional_near_switch");
                        }
                    }
                    k += 1;
                    l.distinct_hash(Fnv::new().i(n as i64).i((n >> 64) as i64).i(z.transitions.len() as i64).get());
                }
            }
        }
        l.op_n("from_total_nanoseconds (zone) vs from_timespec (zone)", 2 * k);
    });
    let nss: [u32; 9] = [0, 1, 999_999_998, 999_999_999, 1_000_000_000, 1_000_000_001, 2_000_000_000, u32::MAX - 1, u32::MAX];
    run_enum(ctx, &mut rep, 3, nss.len() as u64 * 6, |l, _rng, i| {
        check_ns_validation(l, nss[(i % 9) as usize], [1970, 2024, -5000, 100000, 2000, -4][(i / 9) as usize]);
        l.op_n("ns validation (constructors and the search on five zone shapes)", 110);
        l.distinct_enumerated += 1;
    });
    rep
}
