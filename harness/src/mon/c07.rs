//! C07: no panic, overflow or abort - every failure on any input is a returned error.
//!
//! The oracle is the facade itself: panic hook (any panic = violation), counting allocator (peak of a
//! call above 4 x input bytes + 4 KiB, or a single request above the hard cap = violation; the cap
//! aborts the process and is collected by the driver), CPU clock of the worker thread (> 10 CPU-seconds
//! in one call = violation; wall-clock is never used). The "expected" value is simply "returned Ok or
//! Err". The same workload runs in the release build (overflow wraps silently -> the other checks'
//! oracles see wrong answers) and in the checked build (overflow / debug assertion / unreachable /
//! slice index -> panic event).

use crate::core::{run_cases, run_enum, Ctx, Fnv, Local, Report};
use crate::facade;
use crate::gen::posix::{rand_expressible, spell_alt, spell_fixed};
use crate::gen::rule as grule;
use crate::gen::zone::{gen_zone, ZoneCfg};
use crate::model::tzif::layout;
use crate::model::zone::{RuleSpec, ZoneSpec};
use crate::mon::c08::load_corpus;
use crate::util::alloc;
use crate::util::cpu::thread_cpu_ns;
use crate::util::json::Json;
use crate::util::rng::Rng;
use std::sync::atomic::Ordering;
use tz::timezone::{AlternateTime, Julian0WithLeap, Julian1WithoutLeap, LeapSecond, LocalTimeType, MonthWeekDay, RuleDay, Transition, TransitionRule};
use tz::{DateTime, TimeZone, TimeZoneRef, TimeZoneSettings, UtcDateTime};

const CPU_LIMIT_NS: u64 = 10_000_000_000;

pub struct Meter {
    pub worst_ratio_x1000: u64,
    pub worst_cpu_ns: u64,
    pub calls: u64,
}

/// run one call under the allocator / CPU monitors
#[inline]
fn measured<T>(l: &mut Local, m: &mut Meter, what: &'static str, input_bytes: usize, describe: &dyn Fn() -> String, f: impl FnOnce() -> T) -> T {
    let snap = alloc::begin();
    let c0 = thread_cpu_ns();
    let r = f();
    let c1 = thread_cpu_ns();
    let u = alloc::end(snap);
    m.calls += 1;
    let bound = 4 * input_bytes + 4096;
    if u.peak > bound {
        l.violation("allocation above a small multiple of the input size", format!("{} on {}", what, describe()), format!("peak <= 4 x {} + 4096 = {} bytes", input_bytes, bound), format!("peak {} bytes, largest single request {}, {} allocations", u.peak, u.largest, u.nalloc));
    }
    if input_bytes > 0 {
        let ratio = (u.peak as u64 * 1000) / (input_bytes as u64 + 1024);
        if ratio > m.worst_ratio_x1000 {
            m.worst_ratio_x1000 = ratio;
        }
    }
    let dt = c1.saturating_sub(c0);
    if dt > m.worst_cpu_ns {
        m.worst_cpu_ns = dt;
    }
    if dt > CPU_LIMIT_NS {
        l.violation("unbounded work: more than 10 CPU-seconds in one call", format!("{} on {}", what, describe()), "microseconds".into(), format!("{} ms of thread CPU time", dt / 1_000_000));
    }
    r
}

fn hex(bytes: &[u8]) -> String {
    let h: String = bytes.iter().take(160).map(|b| format!("{:02x}", b)).collect();
    format!("{} bytes {}{}", bytes.len(), h, if bytes.len() > 160 { "..." } else { "" })
}

const PROBE_YEARS: [i32; 10] = [i32::MIN, i32::MIN + 1, i32::MIN + 2, i32::MIN + 3, -1, 1970, 2024, i32::MAX - 2, i32::MAX - 1, i32::MAX];

/// every query operation on a zone that parsed / was constructed
pub fn exercise(l: &mut Local, m: &mut Meter, tz: TimeZoneRef<'_>, zone_bytes: usize, rng: &mut Rng, what: &dyn Fn() -> String) {
    let tr = tz.transitions();
    let mut instants: Vec<i64> = vec![i64::MIN, i64::MIN + 1, i64::MAX, i64::MAX - 1, 0, -1, crate::model::cal::min_unix(), crate::model::cal::max_unix(), crate::model::cal::min_unix() - 1, crate::model::cal::max_unix() + 1];
    for t in tr.iter().take(3).chain(tr.iter().rev().take(3)) {
        for d in [-1i64, 0, 1] {
            instants.push(t.unix_leap_time().saturating_add(d));
        }
    }
    for l2 in tz.leap_seconds().iter().take(2).chain(tz.leap_seconds().iter().rev().take(2)) {
        for d in [-1i64, 0, 1] {
            instants.push(l2.unix_leap_time().saturating_add(d));
        }
    }
    for _ in 0..3 {
        instants.push(rng.i64_log());
    }
    for &u in &instants {
        let _ = measured(l, m, "find_local_time_type", zone_bytes, what, || tz.find_local_time_type(u).map(|t| t.ut_offset()));
        let ns = (u as u32) % 1_000_000_000;
        let r = measured(l, m, "DateTime::from_timespec", zone_bytes, what, || facade::dt_from_timespec(u, ns, tz));
        if let Ok(d) = r {
            let _ = measured(l, m, "DateTime::project", zone_bytes, what, || facade::project(&d, TimeZoneRef::utc()));
            let _ = measured(l, m, "DateTime::to_string", zone_bytes + 64, what, || d.to_string());
            let _ = measured(l, m, "DateTime::total_nanoseconds", zone_bytes, what, || d.total_nanoseconds());
            let _ = (d.week_day(), d.year_day());
        }
        let _ = measured(l, m, "DateTime::from_total_nanoseconds", zone_bytes, what, || facade::dt_from_total_ns(u as i128 * 1_000_000_007 + 5, tz));
    }
    // what was accepted is read back: the getters and the Debug text of every part (a value that should have been
    // refused, e.g. a designation with an octet that is not ASCII, fails here and not in the call that accepted it)
    for t in tz.local_time_types().iter().take(8).chain(tz.local_time_types().iter().rev().take(2)) {
        let _ = measured(l, m, "LocalTimeType getters and Debug", 256, what, || (t.time_zone_designation().len(), t.ut_offset(), t.is_dst(), format!("{:?}", t).len()));
    }
    if let Some(r) = tz.extra_rule() {
        let _ = measured(l, m, "TransitionRule Debug", 1024, what, || format!("{:?}", r).len());
    }
    if tr.len() <= 64 && tz.local_time_types().len() <= 16 && tz.leap_seconds().len() <= 64 {
        let _ = measured(l, m, "TimeZoneRef Debug", zone_bytes * 64 + 8192, what, || format!("{:?}", tz).len());
    }
    // searches: extreme years, dates around transitions, second 60; result list is bounded by the table length
    let result_budget = zone_bytes + 128 * (tr.len() + 8);
    let mut dates: Vec<(i32, u8, u8, u8, u8, u8)> = vec![];
    for y in PROBE_YEARS {
        dates.push((y, 1, 1, 0, 0, 0));
        dates.push((y, 12, 31, 23, 59, 60));
        dates.push((y, 6, 15, 12, 30, 30));
    }
    for t in tr.iter().take(2).chain(tr.iter().rev().take(2)) {
        let u = t.unix_leap_time();
        if u > crate::model::cal::min_unix() + 100_000_000 && u < crate::model::cal::max_unix() - 100_000_000 {
            let c = crate::model::cal::civil_from_unix(u);
            dates.push((c.year as i32, c.month, c.day, c.hour, c.minute, c.second));
        }
    }
    dates.push((2024, 2, 30, 0, 0, 0));
    dates.push((2024, 13, 1, 0, 0, 0));
    for (y, mo, d, h, mi, s) in dates {
        let _ = measured(l, m, "DateTime::find", result_budget, what, || facade::find(y, mo, d, h, mi, s, 7, tz).map(|l| l.unique().is_some()));
        if y == 2024 {
            let _ = measured(l, m, "DateTime::find + Debug", result_budget * 8 + 4096, what, || facade::find(y, mo, d, h, mi, s, 7, tz).map(|l| format!("{:?}", l).len()));
        }
        let mut buf = [None; 3];
        let _ = measured(l, m, "DateTime::find_n", zone_bytes, what, || facade::find_n(&mut buf, y, mo, d, h, mi, s, 7, tz).map(|l| l.count()));
    }
}

fn parse_file(l: &mut Local, m: &mut Meter, bytes: &[u8], rng: &mut Rng, exercise_it: bool) -> bool {
    let what = || hex(bytes);
    let r = measured(l, m, "TimeZone::from_tz_data", bytes.len(), &what, || TimeZone::from_tz_data(bytes));
    match r {
        Ok(z) => {
            if exercise_it {
                exercise(l, m, z.as_ref(), bytes.len(), rng, &what);
            }
            true
        }
        Err(_) => false,
    }
}

fn parse_string(l: &mut Local, m: &mut Meter, s: &[u8], rng: &mut Rng) {
    let what = || format!("TZ string {:?}", String::from_utf8_lossy(s));
    if let Ok(t) = std::str::from_utf8(s) {
        let settings = TimeZoneSettings::new(&["/nonexistent"], |_| Err("no".into()));
        // the description path allocates a formatted path per directory: budget = value + directory length
        let r = measured(l, m, "TimeZoneSettings::parse_posix_tz", 2 * s.len() + 64, &what, || settings.parse_posix_tz(t));
        if let Ok(z) = r {
            exercise(l, m, z.as_ref(), s.len() + 64, rng, &what);
        }
    }
    // as footer (also reaches non-UTF-8 input)
    let mut f = crate::mon::c04::v3_file_with_footer("", &[(0, false, "UTC")]);
    f.truncate(f.len() - 1);
    f.extend(s);
    f.push(b'\n');
    parse_file(l, m, &f, rng, false);
}

/// constructors with i32 / i64 extremes, and queries on whatever is accepted
fn constructors(l: &mut Local, m: &mut Meter, rng: &mut Rng) {
    const I64S: [i64; 12] = [i64::MIN, i64::MIN + 1, -1, 0, 1, i64::MAX - 1, i64::MAX, 2_419_199, -67768100567971200, 67767976233532799, 1 << 40, -(1 << 40)];
    const I32S: [i32; 12] = [i32::MIN, i32::MIN + 1, -90000, -89999, -1, 0, 1, 93599, 93600, 604799, i32::MAX - 1, i32::MAX];
    let what = || "constructor arguments at i32/i64 extremes".to_string();
    // local time types and rule days
    let mut ltts: Vec<LocalTimeType> = vec![];
    for &o in &I32S {
        for d in [None, Some(&b"AB"[..]), Some(&b"ABC"[..]), Some(&b"ABCDEFG"[..]), Some(&b"ABCDEFGH"[..]), Some(&b"A\0C"[..]), Some(&b"+-9"[..])] {
            if let Ok(t) = measured(l, m, "LocalTimeType::new", 16, &what, || LocalTimeType::new(o, rng.chance(1, 2), d)) {
                ltts.push(t);
            }
        }
        let _ = LocalTimeType::with_ut_offset(o);
    }
    // designations with any octet value at any position, lengths 2..=8; what is accepted is read back
    for _ in 0..64 {
        let n = rng.range(2, 8) as usize;
        let mut d: Vec<u8> = (0..n).map(|_| *rng.pick(b"ABCxyz019+-")).collect();
        let k = rng.below(n as u64) as usize;
        d[k] = rng.next() as u8;
        if d[k] >= 0x80 {
            l.class("designation_octet_above_ascii");
        }
        if let Ok(t) = measured(l, m, "LocalTimeType::new", 16, &what, || LocalTimeType::new(3600, false, Some(&d))) {
            let _ = measured(l, m, "LocalTimeType getters and Debug", 256, &what, || (t.time_zone_designation().len(), format!("{:?}", t).len()));
        }
    }
    let mut days: Vec<RuleDay> = vec![];
    for v in [0u16, 1, 59, 60, 365, 366, u16::MAX] {
        if let Ok(d) = Julian1WithoutLeap::new(v) {
            days.push(RuleDay::Julian1WithoutLeap(d));
        }
        if let Ok(d) = Julian0WithLeap::new(v) {
            days.push(RuleDay::Julian0WithLeap(d));
        }
    }
    for (mo, w, d) in [(0u8, 1u8, 0u8), (1, 1, 0), (2, 5, 6), (12, 5, 0), (13, 1, 0), (1, 0, 0), (1, 6, 0), (1, 1, 7), (255, 255, 255), (2, 4, 3), (3, 1, 1)] {
        if let Ok(x) = MonthWeekDay::new(mo, w, d) {
            days.push(RuleDay::MonthWeekDay(x));
        }
    }
    // rules: every notation pair x extreme times/offsets (the nine notation pairs of the consistency check)
    let mut rules: Vec<TransitionRule> = vec![];
    for _ in 0..40 {
        let std = *rng.pick(&ltts);
        let dst = *rng.pick(&ltts);
        let (sd, ed) = (*rng.pick(&days), *rng.pick(&days));
        let (st, et) = (*rng.pick(&I32S), *rng.pick(&I32S));
        l.class(match (&sd, &ed) {
            (RuleDay::MonthWeekDay(_), RuleDay::MonthWeekDay(_)) => "rule_pair_M_M",
            (RuleDay::MonthWeekDay(_), _) | (_, RuleDay::MonthWeekDay(_)) => "rule_pair_M_J",
            _ => "rule_pair_J_J",
        });
        if let Ok(a) = measured(l, m, "AlternateTime::new", 64, &what, || AlternateTime::new(std, dst, sd, st, ed, et)) {
            rules.push(TransitionRule::Alternate(a));
        }
    }
    for t in ltts.iter().take(4) {
        rules.push(TransitionRule::Fixed(*t));
    }
    // zones from extreme parts
    for _ in 0..30 {
        let nt = rng.below(4) as usize;
        let mut times: Vec<i64> = (0..nt).map(|_| *rng.pick(&I64S)).collect();
        if rng.chance(3, 4) {
            times.sort();
            times.dedup();
        }
        let ntypes = 1 + rng.below(3) as usize;
        let types: Vec<LocalTimeType> = (0..ntypes).map(|_| *rng.pick(&ltts)).collect();
        let tr: Vec<Transition> = times.iter().map(|&t| Transition::new(t, rng.below(ntypes as u64 + 1) as usize)).collect();
        let nl = rng.below(3) as usize;
        let mut lt = *rng.pick(&[0i64, -1, i64::MAX - 3_000_000, 78796800]);
        let mut c = *rng.pick(&[1i32, -1, i32::MAX, i32::MIN, 0]);
        let leaps: Vec<LeapSecond> = (0..nl)
            .map(|_| {
                let r = LeapSecond::new(lt, c);
                lt = lt.saturating_add(*rng.pick(&[2_419_199i64, 2_419_198, i64::MAX]));
                c = c.saturating_add(*rng.pick(&[1, -1]));
                r
            })
            .collect();
        let rule = if rng.chance(1, 2) { Some(*rng.pick(&rules)) } else { None };
        let bytes = 16 * tr.len() + 16 * types.len() + 16 * leaps.len() + 64;
        let zr = measured(l, m, "TimeZoneRef::new", bytes, &what, || TimeZoneRef::new(&tr, &types, &leaps, &rule).map(|_| ()));
        let zo = measured(l, m, "TimeZone::new", bytes, &what, || TimeZone::new(tr.clone(), types.clone(), leaps.clone(), rule));
        let _ = zr;
        if let Ok(z) = zo {
            l.class("zone_from_extreme_parts_accepted");
            exercise(l, m, z.as_ref(), bytes, rng, &what);
        }
    }
    // rule-only zones at the year guards
    for r in rules.iter().take(12) {
        let types = [LocalTimeType::utc()];
        let rule = Some(*r);
        if let Ok(z) = TimeZoneRef::new(&[], &types, &[], &rule) {
            exercise(l, m, z, 64, rng, &what);
            for y in [i32::MIN + 1, i32::MIN + 2, i32::MAX - 2, i32::MAX - 1] {
                let t = crate::model::cal::unix_from_civil(y as i64, 6, 1, 0, 0, 0);
                let _ = measured(l, m, "find_local_time_type", 64, &what, || z.find_local_time_type(t).map(|t| t.ut_offset()));
                l.class("rule_year_guard_probe");
            }
        }
    }
    // date-time constructors
    for &y in &PROBE_YEARS {
        for (mo, d, h, mi, s, ns) in [(1u8, 1u8, 0u8, 0u8, 0u8, 0u32), (12, 31, 23, 59, 60, 999_999_999), (2, 29, 0, 0, 0, 0), (255, 255, 255, 255, 255, u32::MAX), (0, 0, 0, 0, 0, 0)] {
            let _ = measured(l, m, "UtcDateTime::new", 16, &what, || facade::utc_new(y, mo, d, h, mi, s, ns).map(|d| (d.unix_time(), d.week_day(), d.year_day(), d.total_nanoseconds())));
            for t in ltts.iter().take(6) {
                let _ = measured(l, m, "DateTime::new", 16, &what, || facade::dt_new(y, mo, d, h, mi, s, ns, *t).map(|d| (d.week_day(), d.year_day(), d.total_nanoseconds())));
            }
        }
    }
    for &u in &I64S {
        for ns in [0u32, 999_999_999, 1_000_000_000, u32::MAX] {
            let r = measured(l, m, "UtcDateTime::from_timespec", 16, &what, || facade::utc_from_timespec(u, ns));
            if let Ok(d) = r {
                let _ = measured(l, m, "UtcDateTime::to_string", 80, &what, || d.to_string());
                let _ = (d.unix_time(), d.total_nanoseconds(), d.week_day(), d.year_day());
                let _ = measured(l, m, "UtcDateTime::project", 16, &what, || facade::utc_project(&d, TimeZoneRef::utc()));
            }
            for t in ltts.iter().take(8) {
                let r = measured(l, m, "DateTime::from_timespec_and_local", 16, &what, || facade::dt_from_timespec_and_local(u, ns, *t));
                if let Ok(d) = r {
                    let _ = measured(l, m, "DateTime::to_string", 96, &what, || d.to_string());
                }
            }
        }
    }
    for n in [i128::MIN, i128::MIN + 1, -1, 0, 1, i128::MAX - 1, i128::MAX, i64::MAX as i128 * 1_000_000_000, i64::MIN as i128 * 1_000_000_000 - 1] {
        let _ = measured(l, m, "UtcDateTime::from_total_nanoseconds", 16, &what, || UtcDateTime::from_total_nanoseconds(n).is_ok());
        let _ = measured(l, m, "DateTime::from_total_nanoseconds_and_local", 16, &what, || DateTime::from_total_nanoseconds_and_local(n, ltts[0]).is_ok());
    }
}

/// structured mutations of a real file
fn mutate_file(good: &[u8], rng: &mut Rng, l: &mut Local) -> Vec<u8> {
    let lay = match layout(good) {
        Some(x) => x,
        None => return good.to_vec(),
    };
    let mut b = good.to_vec();
    let blk = lay.blocks.len() - 1; // the governing block
    let (o, w) = lay.blocks[blk];
    match rng.below(9) {
        0 => {
            // hostile header count with a short body
            let h = lay.headers[rng.below(lay.headers.len() as u64) as usize];
            let p = h + 20 + 4 * rng.below(6) as usize;
            let v: u32 = *rng.pick(&[0, 1, 255, 1 << 31, u32::MAX, u32::MAX - 1, 1 << 16]);
            b[p..p + 4].copy_from_slice(&v.to_be_bytes());
            l.class("hostile_header_count");
        }
        1 => {
            // extreme 64-bit time
            if o[1] > o[0] {
                let k = rng.below(((o[1] - o[0]) / w) as u64) as usize;
                let v: i64 = *rng.pick(&[i64::MIN, i64::MAX, i64::MIN + 1, -1, 0]);
                let p = o[0] + k * w;
                if w == 8 {
                    b[p..p + 8].copy_from_slice(&v.to_be_bytes());
                } else {
                    b[p..p + 4].copy_from_slice(&(v as i32).to_be_bytes());
                }
                l.class("extreme_transition_time");
            }
        }
        2 => {
            // ttinfo bytes
            if o[3] > o[2] {
                let p = o[2] + rng.below((o[3] - o[2]) as u64) as usize;
                b[p] = *rng.pick(&[0u8, 1, 2, 0x7f, 0x80, 0xff]);
                l.class("ttinfo_byte");
            }
        }
        3 => {
            // type indices / indicators
            let (a, e) = if rng.chance(1, 2) { (o[1], o[2]) } else { (o[5], o[7]) };
            if e > a {
                let p = a + rng.below((e - a) as u64) as usize;
                b[p] = *rng.pick(&[0u8, 1, 2, 0xff, 0x10]);
                l.class("index_or_indicator_byte");
            }
        }
        4 => {
            // leap records
            if o[5] > o[4] {
                let p = o[4] + rng.below((o[5] - o[4]) as u64) as usize;
                b[p] = rng.next() as u8;
                l.class("leap_record_byte");
            } else if let Some((fs, fe)) = lay.footer {
                if fe > fs + 1 {
                    let p = fs + rng.below((fe - fs) as u64) as usize;
                    b[p] = rng.next() as u8;
                }
            }
        }
        5 => {
            // footer rewritten from a TZ-string dictionary / generator
            if let Some((fs, _)) = lay.footer {
                b.truncate(fs);
                b.push(b'\n');
                let s = match rng.below(4) {
                    0 => grule::IANA_FOOTERS[rng.below(95) as usize].to_string(),
                    1 => grule::IDIOM_FOOTERS[rng.below(8) as usize].to_string(),
                    _ => match rand_expressible(rng) {
                        RuleSpec::Fixed(t) => spell_fixed(&t, rng),
                        RuleSpec::Alt(a) => spell_alt(&a, rng).0,
                    },
                };
                b.extend(s.as_bytes());
                if rng.chance(1, 5) {
                    let k = b.len() - 1 - rng.below(s.len().max(1) as u64) as usize;
                    b[k] = *rng.pick(&[0xffu8, 0xc3, 0, b'\n', b' ']);
                    l.class("invalid_utf8_or_control_in_footer");
                }
                b.push(b'\n');
                l.class("footer_rewritten");
            }
        }
        6 => {
            // designation bytes
            if o[4] > o[3] {
                let p = o[3] + rng.below((o[4] - o[3]) as u64) as usize;
                b[p] = if rng.chance(1, 2) { *rng.pick(&[0u8, b'A', b' ', 0xff, b'+']) } else { rng.next() as u8 };
                l.class("designation_byte");
            }
        }
        7 => {
            let p = rng.below(b.len() as u64) as usize;
            b[p] ^= 1 << rng.below(8);
            l.class("random_bit_flip");
        }
        _ => {
            // splice: header of one version, body of another length
            let cut = rng.below(b.len() as u64) as usize;
            let add = rng.below(64) as usize;
            b.truncate(cut);
            for _ in 0..add {
                b.push(rng.next() as u8);
            }
            l.class("truncate_and_append_noise");
        }
    }
    b
}

pub fn run(ctx: &Ctx) -> Report {
    let mut rep = Report::new("C07");
    rep.rule = "cases = hostile inputs to every public operation, each call observed by the panic hook, the counting allocator (peak <= 4 x input + 4 KiB, hard cap 1 GiB) and the thread CPU clock (<= 10 s): every truncation length of vendored TZif files; structured mutations of them (hostile header counts up to 2^32-1 with a short body, i64 extreme times, ttinfo / index / indicator / leap / designation bytes, footer rewritten from a TZ-string dictionary, invalid UTF-8 in the footer, bit flips, truncate-and-append); \
                TZ strings (generated sentences, their edits, non-UTF-8 bytes through the footer path); all constructors at i32/i64 extremes; and every query operation (lookup at extremes and at transitions +-1, find, find_n, project, to_string, total_nanoseconds) on whatever was accepted. Run in the release and in the overflow-checked build. distinct_nontrivial = distinct hostile inputs."
        .into();
    rep.required_classes = vec![
        "tz_string_number_at_an_integer_width_limit",
        "truncation_at_every_length",
        "hostile_header_count", "designation_octet_above_ascii",
        "extreme_transition_time",
        "ttinfo_byte",
        "index_or_indicator_byte",
        "footer_rewritten",
        "invalid_utf8_or_control_in_footer",
        "designation_byte",
        "random_bit_flip",
        "truncate_and_append_noise",
        "mutant_still_parses_(queries_exercised)",
        "rule_pair_M_M",
        "rule_pair_M_J",
        "rule_pair_J_J",
        "zone_from_extreme_parts_accepted",
        "rule_year_guard_probe",
        "tz_string_inputs",
    ];
    if let Err(e) = crate::mon::c03::self_tests() {
        rep.inconclusive.push(format!("model self-test failed: {}", e));
        return rep;
    }
    alloc::HARD_CAP.store(1 << 30, Ordering::Relaxed);
    let (_paths, blobs) = match load_corpus(&ctx.corpus) {
        Ok(x) => x,
        Err(e) => {
            rep.inconclusive.push(e);
            return rep;
        }
    };
    let worst_ratio = std::sync::atomic::AtomicU64::new(0);
    let worst_cpu = std::sync::atomic::AtomicU64::new(0);
    let fold = |m: &Meter| {
        worst_ratio.fetch_max(m.worst_ratio_x1000, Ordering::Relaxed);
        worst_cpu.fetch_max(m.worst_cpu_ns, Ordering::Relaxed);
    };
    // wl 1: every truncation length of (a sample of) the vendored files
    let nfiles = if ctx.quick() { 240 } else { blobs.len() as u64 };
    run_enum(ctx, &mut rep, 1, nfiles, |l, rng, i| {
        let k = if ctx.quick() { (i as usize * 11) % blobs.len() } else { i as usize };
        let good = &blobs[k];
        let mut m = Meter { worst_ratio_x1000: 0, worst_cpu_ns: 0, calls: 0 };
        let step = if ctx.scale < 1.0 { 37 } else { 1 };
        let mut q = 0;
        while q <= good.len() {
            let ok = parse_file(l, &mut m, &good[..q], rng, false);
            let _ = ok;
            q += step;
        }
        parse_file(l, &mut m, good, rng, true);
        l.class_n("truncation_at_every_length", (good.len() / step) as u64);
        l.op_n("monitored calls", m.calls);
        l.distinct_enumerated += (good.len() / step) as u64 + 1;
        fold(&m);
    });
    // wl 2: structured mutations
    run_cases(ctx, &mut rep, 2, ctx.n(40_000, 1_000_000), |l, rng, i| {
        let good = &blobs[rng.below(blobs.len() as u64) as usize];
        let mut m = Meter { worst_ratio_x1000: 0, worst_cpu_ns: 0, calls: 0 };
        for _ in 0..ctx.inner(8) {
            let mut b = mutate_file(good, rng, l);
            if rng.chance(1, 4) {
                b = mutate_file(&b, rng, l);
            }
            if parse_file(l, &mut m, &b, rng, true) {
                l.class("mutant_still_parses_(queries_exercised)");
            }
            l.distinct_hash(Fnv::new().b(&b).get());
            if i % 2000 == 0 {
                l.sample(|| Json::obj().set("mutated_file", hex(&b)).set("accepted", TimeZone::from_tz_data(&b).is_ok()));
            }
        }
        l.op_n("monitored calls", m.calls);
        fold(&m);
    });
    // wl 3: TZ strings and their edits
    run_cases(ctx, &mut rep, 3, ctx.n(20_000, 600_000), |l, rng, _| {
        let mut m = Meter { worst_ratio_x1000: 0, worst_cpu_ns: 0, calls: 0 };
        for _ in 0..ctx.inner(8) {
            let mut s = match rand_expressible(rng) {
                RuleSpec::Fixed(t) => spell_fixed(&t, rng),
                RuleSpec::Alt(a) => spell_alt(&a, rng).0,
            }
            .into_bytes();
            for _ in 0..rng.below(3) {
                let p = rng.below(s.len() as u64 + 1) as usize;
                match rng.below(3) {
                    0 if p < s.len() => {
                        s.remove(p);
                    }
                    1 => s.insert(p, *rng.pick(b"E5:<>+-,JM./0129 \xff\x00\xc3")),
                    _ if p < s.len() => s[p] = *rng.pick(b"E5:<>+-,JM./0129 \xff\x00\xc3"),
                    _ => {}
                }
            }
            if rng.chance(1, 50) {
                // long digit runs / long names
                let p = rng.below(s.len() as u64 + 1) as usize;
                let ch = *rng.pick(b"9A<");
                for _ in 0..rng.range(20, 400) {
                    s.insert(p, ch);
                }
            }
            if rng.chance(1, 3) {
                // a number of the string replaced by a value at a width limit of the machine integers: 9, 10, 11,
                // 19, 20 digits, just below / at / above 2^31, 2^32, 2^63, 2^64 (the arithmetic on parsed fields must
                // neither overflow nor wrap)
                const BIG: [&str; 22] = [
                    "999999999", "2147483647", "2147483648", "2147483649", "4294967295", "4294967296", "4294967297", "4294967322", "9999999999", "0000000005", "00000000026", "99999999999",
                    "596523", "596524", "1193047", "9223372036854775807", "9223372036854775808", "18446744073709551615", "18446744073709551616", "2147483647:59:59", "35791394", "35791395",
                ];
                let runs: Vec<(usize, usize)> = {
                    let mut v = vec![];
                    let mut p = 0;
                    while p < s.len() {
                        if s[p].is_ascii_digit() {
                            let mut q = p;
                            while q < s.len() && s[q].is_ascii_digit() {
                                q += 1;
                            }
                            v.push((p, q));
                            p = q;
                        } else {
                            p += 1;
                        }
                    }
                    v
                };
                if !runs.is_empty() {
                    let (p, q) = *rng.pick(&runs);
                    let mut t = s[..p].to_vec();
                    t.extend(rng.pick(&BIG).as_bytes());
                    t.extend(&s[q..]);
                    s = t;
                    l.class("tz_string_number_at_an_integer_width_limit");
                }
            }
            parse_string(l, &mut m, &s, rng);
            l.class("tz_string_inputs");
            l.distinct_hash(Fnv::new().b(&s).get());
        }
        l.op_n("monitored calls", m.calls);
        fold(&m);
    });
    // wl 4: constructors at the extremes
    run_cases(ctx, &mut rep, 4, ctx.n(1500, 40_000), |l, rng, i| {
        let mut m = Meter { worst_ratio_x1000: 0, worst_cpu_ns: 0, calls: 0 };
        constructors(l, &mut m, rng);
        l.op_n("monitored calls", m.calls);
        l.distinct_hash(Fnv::new().i(i as i64).get());
        fold(&m);
    });
    // wl 5: generated valid zones of every shape: all queries
    let cfg = ZoneCfg::lookup();
    run_cases(ctx, &mut rep, 5, ctx.n(20_000, 600_000), |l, rng, _| {
        let mut c = cfg.clone();
        if ctx.scale < 1.0 {
            c.max_transitions = 30;
        }
        let z: ZoneSpec = gen_zone(rng, &c);
        let mut m = Meter { worst_ratio_x1000: 0, worst_cpu_ns: 0, calls: 0 };
        if let Ok(tz) = z.to_tz() {
            let bytes = 16 * z.transitions.len() + 24 * z.types.len() + 16 * z.leaps.0.len() + 64;
            let what = || z.describe();
            exercise(l, &mut m, tz.as_ref(), bytes, rng, &what);
        }
        l.op_n("monitored calls", m.calls);
        l.distinct_hash(Fnv::new().b(z.describe().as_bytes()).get());
        fold(&m);
    });
    rep.extra.insert("worst_peak_allocation_per_input_byte_x1000".into(), Json::Int(worst_ratio.load(Ordering::Relaxed) as i128));
    rep.extra.insert("worst_cpu_ns_in_one_call".into(), Json::Int(worst_cpu.load(Ordering::Relaxed) as i128));
    rep
}
