//! C13: the zone constructor accepts exactly the well-formed zones, each refusal with its own error.
//!
//! Refuting observations: `TimeZone::new` / `TimeZoneRef::new` accepting what M-zone's validator
//! (DESIGN.md A.3, clause by clause) refuses or vice versa; the two constructors disagreeing on the
//! same data; on a single-defect perturbation of a valid zone an error other than the named one;
//! `LocalTimeType::new` accepting the most negative offset or a designation that is not 3..=7
//! characters of [A-Za-z0-9+-].

use crate::core::{run_cases, run_enum, Ctx, Expect, Fnv, Local, Report};
use crate::facade::{ltt_err, tz_err, E};
use crate::gen::zone::{gen_zone, RuleMode, ZoneCfg};
use crate::model::leap::LeapTable;
use crate::model::rule::TypeSpec;
use crate::model::zone::{validate, Fwd, RuleSpec, ZoneSpec};
use crate::util::json::Json;
use crate::util::rng::Rng;
use tz::timezone::{LeapSecond, LocalTimeType, TimeZone, Transition, TransitionRule};
use tz::TimeZoneRef;

/// both constructors on the same data
fn construct(z: &ZoneSpec) -> Option<(Result<(), E>, Result<(), E>)> {
    let (tr, ty, lp, rule): (Vec<Transition>, Vec<LocalTimeType>, Vec<LeapSecond>, Option<TransitionRule>) = z.tz_parts().ok()?;
    let borrowed = TimeZoneRef::new(&tr, &ty, &lp, &rule).map(|_| ()).map_err(|e| tz_err(&e));
    let owned = TimeZone::new(tr.clone(), ty.clone(), lp.clone(), rule).map(|_| ()).map_err(|e| tz_err(&e));
    Some((owned, borrowed))
}

/// `named`: Some(error) when the input is a single-defect perturbation whose error the statement names
fn judge(l: &mut Local, z: &ZoneSpec, defect: &'static str, named: Option<E>) {
    let (owned, borrowed) = match construct(z) {
        Some(x) => x,
        None => return, // parts themselves not constructible (rule refused by C11): not this property's subject
    };
    crate::facade::ev("TimeZone::new", [z.transitions.len() as i64, z.types.len() as i64, z.leaps.0.len() as i64, z.rule.is_some() as i64], owned.is_ok(), 0);
    if owned != borrowed {
        l.violation("zone constructor: owned and borrowed constructors decide differently", z.describe(), format!("TimeZone::new = {:?}", owned), format!("TimeZoneRef::new = {:?}", borrowed));
    }
    let (exp, first_err) = validate(z);
    match (&exp, &owned) {
        (Expect::Unspec, _) => l.unspecified += 1,
        (Expect::Must(()), Ok(())) => l.class("accepted"),
        (Expect::Must(()), Err(e)) => l.violation("zone constructor: well-formed zone refused", format!("[{}] {}", defect, z.describe()), "Ok".into(), format!("Err({:?})", e)),
        (Expect::MustFail, Ok(())) => l.violation("zone constructor: malformed zone accepted", format!("[{}] {}", defect, z.describe()), format!("Err({:?})", first_err), "Ok".into()),
        (Expect::MustFail, Err(e)) => {
            l.class("refused");
            if let Some(want) = named {
                // single-defect input: the statement names the error
                if first_err != Some(want) {
                    // the perturbation did not produce the defect it was meant to (e.g. made unreachable by the zone's shape)
                    l.class("perturbation_not_single_defect_(skipped)");
                } else if *e != want {
                    l.violation("zone constructor: wrong error for the violated clause", format!("[{}] {}", defect, z.describe()), format!("Err({:?})", want), format!("Err({:?})", e));
                } else {
                    l.class(defect);
                }
            }
        }
    }
}

/// every single-defect perturbation the statement lists, applied to a valid zone
fn perturbations(l: &mut Local, z: &ZoneSpec, rng: &mut Rng) -> u64 {
    let mut n = 0u64;
    let nt = z.transitions.len();
    let positions = |len: usize, rng: &mut Rng| -> Vec<(usize, &'static str)> {
        if len == 0 {
            vec![]
        } else {
            let mut v = vec![(0usize, "first"), (len - 1, "last")];
            if len > 2 {
                v.push((1 + rng.below(len as u64 - 2) as usize, "middle"));
            }
            v
        }
    };
    // index out of range
    for (k, pos) in positions(nt, rng) {
        let mut p = z.clone();
        p.transitions[k].1 = if rng.chance(1, 2) { z.types.len() } else { z.types.len() + rng.below(1000) as usize };
        if pos == "last" {
            p.rule = None; // keep it a single defect (the rule clause looks at the last transition's type)
        }
        judge(
            l,
            &p,
            match pos {
                "first" => "index_out_of_range/first",
                "last" => "index_out_of_range/last",
                _ => "index_out_of_range/middle",
            },
            Some(E::InvalidLocalTimeTypeIndex),
        );
        n += 1;
    }
    // two equal / two inverted times
    if nt >= 2 {
        for (k, pos) in positions(nt - 1, rng) {
            for equal in [true, false] {
                let mut p = z.clone();
                p.rule = None; // moving the last transition would touch the rule clause as well
                if equal {
                    p.transitions[k + 1].0 = p.transitions[k].0;
                } else {
                    let (a, b) = (p.transitions[k].0, p.transitions[k + 1].0);
                    p.transitions[k].0 = b;
                    p.transitions[k + 1].0 = a;
                }
                judge(
                    l,
                    &p,
                    match (pos, equal) {
                        ("first", true) => "equal_times/first",
                        ("first", false) => "inverted_times/first",
                        ("last", true) => "equal_times/last",
                        ("last", false) => "inverted_times/last",
                        (_, true) => "equal_times/middle",
                        _ => "inverted_times/middle",
                    },
                    Some(E::InvalidTransition),
                );
                n += 1;
            }
        }
    }
    // leap-second table defects (on a rule-less copy: the table shifts the junction instant)
    {
        let mut base = z.clone();
        base.rule = None;
        if base.leaps.is_empty() {
            base.leaps = crate::gen::zone::gen_leaps(rng, true);
        }
        let nl = base.leaps.0.len();
        for (name, f) in [
            ("leap_first_correction_0", Box::new(|t: &mut LeapTable| t.0[0].1 = 0) as Box<dyn Fn(&mut LeapTable)>),
            ("leap_first_correction_2", Box::new(|t: &mut LeapTable| t.0[0].1 = 2)),
            ("leap_first_correction_-2", Box::new(|t: &mut LeapTable| t.0[0].1 = -2)),
            ("leap_first_time_negative", Box::new(|t: &mut LeapTable| t.0[0].0 = -1)),
            ("leap_first_correction_i32_min", Box::new(|t: &mut LeapTable| t.0[0].1 = i32::MIN)),
        ] {
            let mut p = base.clone();
            // a first-record defect must not be accompanied by a step defect: rebuild the tail relative to the new head
            let head_before = p.leaps.0[0];
            f(&mut p.leaps);
            let dc = p.leaps.0[0].1 as i64 - head_before.1 as i64;
            let dt = p.leaps.0[0].0 - head_before.0;
            for r in p.leaps.0.iter_mut().skip(1) {
                r.1 = (r.1 as i64 + dc).clamp(i32::MIN as i64 + 100, i32::MAX as i64 - 100) as i32;
                let _ = dt;
            }
            if name == "leap_first_time_negative" && p.leaps.0.len() > 1 {
                // spacing to the second record only grows: still a single defect
            }
            judge(l, &p, name, Some(E::InvalidLeapSecond));
            n += 1;
        }
        if nl >= 2 {
            for (k, pos) in positions(nl - 1, rng) {
                for (kind, name) in [(0, "leap_spacing_one_second_short"), (1, "leap_step_0"), (2, "leap_step_2")] {
                    let mut p = base.clone();
                    match kind {
                        0 => {
                            // shift the tail so that exactly this spacing is 2 419 198
                            let want = p.leaps.0[k].0 + 2_419_198;
                            let delta = want - p.leaps.0[k + 1].0;
                            for r in p.leaps.0.iter_mut().skip(k + 1) {
                                r.0 += delta;
                            }
                        }
                        1 => {
                            let delta = p.leaps.0[k].1 - p.leaps.0[k + 1].1;
                            for r in p.leaps.0.iter_mut().skip(k + 1) {
                                r.1 += delta;
                            }
                        }
                        _ => {
                            let step = p.leaps.0[k + 1].1 - p.leaps.0[k].1;
                            for r in p.leaps.0.iter_mut().skip(k + 1) {
                                r.1 += step;
                            }
                        }
                    }
                    let _ = pos;
                    judge(l, &p, name, Some(E::InvalidLeapSecond));
                    n += 1;
                }
            }
        }
    }
    // rule differing from the last type in exactly one of offset / flag / designation
    if let (Some(rule), Some(&(_, i_last))) = (&z.rule, z.transitions.last()) {
        // (a) perturb the last table type (the rule stays as it is)
        for (name, f) in [
            ("rule_vs_last_type_offset", Box::new(|t: &mut TypeSpec| t.off = if t.off == i32::MAX { t.off - 1 } else { t.off + 1 }) as Box<dyn Fn(&mut TypeSpec)>),
            ("rule_vs_last_type_flag", Box::new(|t: &mut TypeSpec| t.dst = !t.dst)),
            ("rule_vs_last_type_designation", Box::new(|t: &mut TypeSpec| t.desig = Some(if t.desig.as_deref() == Some("ZZZ") { "YYY".into() } else { "ZZZ".into() }))),
            ("rule_vs_last_type_designation_absent", Box::new(|t: &mut TypeSpec| t.desig = if t.desig.is_some() { None } else { Some("ZZZ".into()) })),
            // near-equal designations: a strict prefix of the rule's, the rule's plus one character, the last character
            // changed, the case of one letter changed (a comparison over a common length or a packed word would agree)
            (
                "rule_vs_last_type_designation_prefix",
                Box::new(|t: &mut TypeSpec| {
                    t.desig = match t.desig.as_deref() {
                        Some(d) if d.len() > 3 => Some(d[..d.len() - 1].to_string()),
                        Some(d) => Some(format!("{}X", d)),
                        None => Some("ZZZ".into()),
                    }
                }),
            ),
            (
                "rule_vs_last_type_designation_extended",
                Box::new(|t: &mut TypeSpec| {
                    t.desig = match t.desig.as_deref() {
                        Some(d) if d.len() < 7 => Some(format!("{}0", d)),
                        Some(d) => Some(d[..d.len() - 1].to_string()),
                        None => Some("ZZZ".into()),
                    }
                }),
            ),
            (
                "rule_vs_last_type_designation_last_character",
                Box::new(|t: &mut TypeSpec| {
                    t.desig = match t.desig.as_deref() {
                        Some(d) => {
                            let mut b = d.as_bytes().to_vec();
                            let k = b.len() - 1;
                            b[k] = if b[k] == b'Q' { b'R' } else { b'Q' };
                            Some(String::from_utf8(b).unwrap())
                        }
                        None => Some("ZZZ".into()),
                    }
                }),
            ),
            (
                "rule_vs_last_type_designation_case",
                Box::new(|t: &mut TypeSpec| {
                    t.desig = match t.desig.as_deref() {
                        Some(d) if d.bytes().any(|c| c.is_ascii_alphabetic()) => {
                            let mut b = d.as_bytes().to_vec();
                            let k = b.iter().position(|c| c.is_ascii_alphabetic()).unwrap();
                            b[k] ^= 0x20;
                            Some(String::from_utf8(b).unwrap())
                        }
                        _ => Some("ZZZ".into()),
                    }
                }),
            ),
        ] {
            let mut p = z.clone();
            // give the last transition a private copy of its type so that nothing else changes
            let mut t = p.types[i_last].clone();
            f(&mut t);
            p.types.push(t);
            let k = p.transitions.len() - 1;
            p.transitions[k].1 = p.types.len() - 1;
            judge(l, &p, name, Some(E::InconsistentExtraRule));
            n += 1;
        }
        // (b) perturb the rule's type (fixed rules; for DST rules the designation/flag of the half in effect)
        let zm = z.model();
        let u = z.leaps.g(z.transitions[nt - 1].0);
        if u > i64::MIN as i128 && u < i64::MAX as i128 {
            if let Fwd::Type(cur) = zm.rule_type(u as i64) {
                let mut p = z.clone();
                match (&mut p.rule, rule) {
                    (Some(RuleSpec::Fixed(t)), _) => {
                        t.dst = !t.dst;
                        judge(l, &p, "rule_type_flag_changed", Some(E::InconsistentExtraRule));
                        n += 1;
                    }
                    (Some(RuleSpec::Alt(a)), _) => {
                        let half = if cur == a.dst { &mut a.dst } else { &mut a.std };
                        half.desig = Some(if half.desig.as_deref() == Some("QQQ") { "PPP".into() } else { "QQQ".into() });
                        judge(l, &p, "rule_half_designation_changed", Some(E::InconsistentExtraRule));
                        n += 1;
                    }
                    _ => {}
                }
            }
        }
    }
    n
}

fn check_ltt(l: &mut Local, off: i32, dst: bool, desig: Option<&[u8]>) {
    let r = LocalTimeType::new(off, dst, desig).map_err(|e| ltt_err(&e));
    let bad_off = off == i32::MIN;
    let (bad_len, bad_char) = match desig {
        None => (false, false),
        Some(d) => (!(3..=7).contains(&d.len()), !d.iter().all(|c| c.is_ascii_alphanumeric() || *c == b'+' || *c == b'-')),
    };
    let input = || format!("LocalTimeType::new({}, {}, {:?})", off, dst, desig.map(|d| String::from_utf8_lossy(d).to_string()));
    let ndef = bad_off as u8 + bad_len as u8 + bad_char as u8;
    match (&r, ndef) {
        (Ok(t), 0) => {
            l.class("ltt_accepted");
            if t.ut_offset() != off || t.is_dst() != dst || t.time_zone_designation().as_bytes() != desig.unwrap_or(b"") {
                l.violation("local time type: accessors do not return the constructor arguments", input(), "same values".into(), format!("{:?}", t));
            }
        }
        (Ok(_), _) => l.violation("local time type: malformed type accepted", input(), "Err".into(), "Ok".into()),
        (Err(e), 0) => l.violation("local time type: well-formed type refused", input(), "Ok".into(), format!("Err({:?})", e)),
        (Err(e), 1) => {
            let want = if bad_off {
                l.class("ltt_offset_i32_min");
                E::InvalidUtcOffset
            } else if bad_len {
                l.class("ltt_designation_length");
                E::InvalidTimeZoneDesignationLength
            } else {
                l.class("ltt_designation_char");
                E::InvalidTimeZoneDesignationChar
            };
            if *e != want {
                l.violation("local time type: wrong error", input(), format!("Err({:?})", want), format!("Err({:?})", e));
            }
        }
        (Err(_), _) => {} // several defects: only Ok/Err is stated
    }
}

/// arbitrary (mostly malformed) parts: only Ok/Err against the validator, and the two constructors agree
fn gen_garbage(rng: &mut Rng) -> ZoneSpec {
    let ntypes = rng.below(4) as usize;
    let types: Vec<TypeSpec> = (0..ntypes).map(|i| TypeSpec { off: crate::gen::zone::rand_offset(rng, true), dst: rng.chance(1, 2), desig: Some(format!("G{:02}", i)) }).collect();
    let n = rng.below(6) as usize;
    let mut t = rng.i64_log();
    let transitions = (0..n)
        .map(|_| {
            t = match rng.below(6) {
                0 => t,
                1 => t.saturating_sub(rng.range(1, 100)),
                2 => *rng.pick(&[i64::MIN, i64::MAX, 0]),
                _ => t.saturating_add(rng.range(1, 1 << 32)),
            };
            (t, rng.below(ntypes as u64 + 2) as usize)
        })
        .collect();
    let nl = rng.below(4) as usize;
    let mut lt = rng.range(-5, 1 << 31);
    let mut c = *rng.pick(&[1i32, -1, 0, 2, i32::MAX, i32::MIN]);
    let leaps = (0..nl)
        .map(|_| {
            let r = (lt, c);
            lt = lt.saturating_add(*rng.pick(&[2_419_198i64, 2_419_199, 2_419_200, 1, i64::MAX / 2, 30_000_000]));
            c = c.saturating_add(*rng.pick(&[1, -1, 1, -1, 0, 2]));
            r
        })
        .collect();
    let rule = match rng.below(3) {
        0 => None,
        1 => Some(RuleSpec::Fixed(if ntypes > 0 && rng.chance(1, 2) { types[rng.below(ntypes as u64) as usize].clone() } else { TypeSpec::new(3600, false, Some("FIX")) })),
        _ => Some(RuleSpec::Alt(crate::gen::rule::gen_interleaving(rng).0)),
    };
    ZoneSpec { transitions, types, leaps: LeapTable(leaps), rule }
}

/// one base zone and all its single-defect perturbations (libFuzzer target `model`)
pub fn fuzz_case(l: &mut Local, z: &ZoneSpec, rng: &mut Rng) {
    judge(l, z, "valid_by_construction", None);
    perturbations(l, z, rng);
    // one to three arbitrary edits of the valid zone, and an arbitrary tuple: accept / refuse as the sentence says
    let mut m = z.clone();
    for _ in 0..1 + rng.below(3) {
        mutate(&mut m, rng);
    }
    judge(l, &m, "arbitrary_edits", None);
    judge(l, &gen_garbage(rng), "arbitrary_tuple", None);
}

/// one arbitrary edit of a zone description (times, indices, leap records, rule halves; small and extreme deltas)
pub fn mutate(z: &mut ZoneSpec, rng: &mut Rng) {
    let delta = |rng: &mut Rng| -> i64 {
        match rng.below(6) {
            0 => *rng.pick(&[1i64, -1, 2, -2]),
            1 => *rng.pick(&[2_419_199i64, -2_419_199, 2_419_198, -2_419_198, 2_419_200, -2_419_200]),
            2 => rng.range(-100_000_000, 100_000_000),
            3 => rng.i64_log(),
            4 => *rng.pick(&[i64::MAX, i64::MIN, i64::MAX / 2, i64::MIN / 2]),
            _ => rng.range(-4000, 4000),
        }
    };
    match rng.below(8) {
        0 if !z.transitions.is_empty() => {
            let k = rng.below(z.transitions.len() as u64) as usize;
            z.transitions[k].0 = z.transitions[k].0.saturating_add(delta(rng));
        }
        1 if !z.transitions.is_empty() => {
            let k = rng.below(z.transitions.len() as u64) as usize;
            z.transitions[k].1 = rng.below(z.types.len() as u64 + 2) as usize;
        }
        2 if !z.leaps.0.is_empty() => {
            let k = rng.below(z.leaps.0.len() as u64) as usize;
            z.leaps.0[k].0 = z.leaps.0[k].0.saturating_add(delta(rng));
        }
        3 if !z.leaps.0.is_empty() => {
            let k = rng.below(z.leaps.0.len() as u64) as usize;
            z.leaps.0[k].1 = z.leaps.0[k].1.saturating_add(*rng.pick(&[1, -1, 2, -2, i32::MAX, i32::MIN]));
        }
        4 if z.leaps.0.len() >= 2 => {
            let k = rng.below(z.leaps.0.len() as u64 - 1) as usize;
            z.leaps.0.swap(k, k + 1);
        }
        5 if z.transitions.len() >= 2 => {
            let k = rng.below(z.transitions.len() as u64 - 1) as usize;
            z.transitions.swap(k, k + 1);
        }
        6 => {
            if let Some(k) = (!z.types.is_empty()).then(|| rng.below(z.types.len() as u64) as usize) {
                match rng.below(3) {
                    0 => z.types[k].off = z.types[k].off.saturating_add(delta(rng).clamp(-100_000, 100_000) as i32),
                    1 => z.types[k].dst = !z.types[k].dst,
                    _ => z.types[k].desig = Some(format!("M{:02}", rng.below(100))),
                }
            }
        }
        _ => {
            z.leaps.0.push((rng.range(-5, 1 << 33), *rng.pick(&[1i32, -1, 0, 2])));
            if rng.chance(1, 2) {
                z.leaps.0.sort();
            }
        }
    }
}

pub fn run(ctx: &Ctx) -> Report {
    let mut rep = Report::new("C13");
    rep.rule = "cases = (transitions, types, leap seconds, optional rule) tuples given to TimeZone::new and TimeZoneRef::new: zones valid by construction from the C03/C05 generators (must be accepted by both), every single-defect perturbation the statement lists applied at first / middle / last position \
                (index = len or beyond; two equal / two inverted times; first leap correction 0 / 2 / -2 / i32::MIN; first leap time -1; spacing 2 419 198; step 0 / 2; rule differing from the last type in exactly one of offset / flag / designation, from either side), i64/i32 extremes, and random malformed tuples (Ok/Err only). \
                Oracle: M-zone validator, the C13 sentence clause by clause. LocalTimeType::new over offsets incl. i32::MIN and designations of length 0..9 over good and bad characters, and of lengths around 256, 512, 1024, 2^15, 2^16, 2^17. distinct_nontrivial = distinct perturbed or generated tuples (enumerated per base zone)."
        .into();
    rep.required_classes = vec![
        "last_transition_on_a_leap_record_with_rule_switch_there",
        "junction_zone_first_correction_2",
        "junction_zone_first_correction_0",
        "junction_zone_step_0",
        "junction_zone_step_2",
        "accepted",
        "refused",
        "index_out_of_range/first",
        "index_out_of_range/middle",
        "index_out_of_range/last",
        "equal_times/first",
        "equal_times/middle",
        "equal_times/last",
        "inverted_times/first",
        "inverted_times/middle",
        "inverted_times/last",
        "leap_first_correction_0",
        "leap_first_correction_2",
        "leap_first_correction_-2",
        "leap_first_time_negative",
        "leap_first_correction_i32_min",
        "leap_spacing_one_second_short",
        "leap_step_0",
        "leap_step_2",
        "rule_vs_last_type_offset",
        "rule_vs_last_type_flag",
        "rule_vs_last_type_designation",
        "rule_vs_last_type_designation_absent",
        "rule_vs_last_type_designation_prefix",
        "rule_vs_last_type_designation_extended",
        "rule_vs_last_type_designation_last_character",
        "rule_vs_last_type_designation_case",
        "rule_type_flag_changed",
        "rule_half_designation_changed",
        "no_local_time_type",
        "ltt_accepted",
        "ltt_offset_i32_min",
        "ltt_designation_length",
        "ltt_designation_char",
        "ltt_designation_longer_than_255",
        "leap_table_at_integer_extremes",
        "leap_table_at_integer_extremes_workload",
    ];
    if let Err(e) = crate::mon::c03::self_tests() {
        rep.inconclusive.push(format!("model self-test failed: {}", e));
        return rep;
    }
    let mut cfg = ZoneCfg::lookup();
    cfg.max_transitions = 40;
    run_cases(ctx, &mut rep, 1, ctx.n(150_000, 2_000_000), |l, rng, i| {
        let mut c = cfg.clone();
        if i % 3 == 0 {
            c.rule = *rng.pick(&[RuleMode::Fixed, RuleMode::Alt]);
        }
        let z = gen_zone(rng, &c);
        judge(l, &z, "valid_by_construction", None);
        let n = 1 + perturbations(l, &z, rng);
        l.op_n("TimeZone::new + TimeZoneRef::new", 2 * n);
        l.distinct_enumerated += n;
        if i % 17000 == 3 {
            l.sample(|| Json::obj().set("base_zone", z.describe()).set("perturbations", n));
        }
    });
    // wl 8: one to three arbitrary edits of a valid zone (times, indices, leap records moved by small, 28-day and extreme
    // deltas, neighbours swapped, type fields changed, a record appended): accepted or refused as the sentence says
    run_cases(ctx, &mut rep, 8, ctx.n(60_000, 1_500_000), |l, rng, _| {
        let mut c = cfg.clone();
        c.max_transitions = 12;
        if rng.chance(1, 3) {
            c.rule = *rng.pick(&[RuleMode::Fixed, RuleMode::Alt]);
        }
        c.leaps = true;
        let mut z = gen_zone(rng, &c);
        if z.leaps.is_empty() && rng.chance(1, 2) {
            z.leaps = crate::gen::zone::gen_leaps(rng, true);
        }
        for _ in 0..1 + rng.below(3) {
            mutate(&mut z, rng);
        }
        judge(l, &z, "arbitrary_edits", None);
        l.op_n("TimeZone::new + TimeZoneRef::new", 2);
        l.distinct_hash(Fnv::new().b(z.describe().as_bytes()).get());
    });
    // leap-second tables at the i64 / i32 extremes (saturating arithmetic paths): exact spacing, one second short,
    // equal times, inverted times, with the later record at i64::MAX, i64::MAX - 1 and near i64::MIN
    run_cases(ctx, &mut rep, 6, 1, |l, _rng, _| {
        let m = i64::MAX;
        let sp = 2_419_199i64;
        let mut tables: Vec<Vec<(i64, i32)>> = vec![];
        for x1 in [m, m - 1, m - 2] {
            for d in [sp, sp - 1, sp + 1, 1, 0, -1, sp / 2] {
                let x0 = match x1.checked_sub(d) {
                    Some(x0) => x0,
                    None => continue,
                };
                for (c0, c1) in [(1, 2), (-1, -2), (1, 0), (-1, 0)] {
                    tables.push(vec![(x0, c0), (x1, c1)]);
                    tables.push(vec![(0, 1), (x0, if c0 > 0 { 2 } else { 0 }), (x1, if c0 > 0 { 3 } else { -1 })]);
                }
            }
        }
        for (a, b) in [(0i64, m), (0, m - sp), (m - sp, m), (1, m), (0, i64::MIN), (i64::MIN, 0), (i64::MIN, i64::MIN + sp), (0, sp), (0, sp - 1)] {
            tables.push(vec![(a, 1), (b, 2)]);
        }
        for c in [i32::MAX, i32::MIN, i32::MAX - 1, i32::MIN + 1] {
            tables.push(vec![(0, 1), (sp, c)]);
            tables.push(vec![(0, c)]);
            tables.push(vec![(0, 1), (sp, 2), (2 * sp, c)]);
        }
        let mut n = 0;
        for t in tables {
            let z = ZoneSpec { transitions: vec![], types: vec![TypeSpec::new(0, false, Some("UTC"))], leaps: LeapTable(t), rule: None };
            judge(l, &z, "leap_table_at_integer_extremes", Some(E::InvalidLeapSecond));
            n += 1;
        }
        l.class("leap_table_at_integer_extremes_workload");
        l.op_n("TimeZone::new + TimeZoneRef::new", 2 * n);
        l.distinct_enumerated += n;
    });
    // no local time type
    run_cases(ctx, &mut rep, 2, 4, |l, rng, i| {
        let mut z = ZoneSpec::default();
        if i >= 2 {
            z.leaps = crate::gen::zone::gen_leaps(rng, false);
        }
        let (owned, borrowed) = construct(&z).unwrap();
        if owned != Err(E::NoLocalTimeType) || borrowed != Err(E::NoLocalTimeType) {
            l.violation("zone constructor: empty type list", z.describe(), "Err(NoLocalTimeType)".into(), format!("{:?} / {:?}", owned, borrowed));
        } else {
            l.class("no_local_time_type");
        }
        l.op_n("TimeZone::new + TimeZoneRef::new", 2);
        l.distinct_enumerated += 1;
    });
    // wl 7: the junction clause at its sharpest: the last transition recorded on a leap record (or one second
    // around it) and a DST rule that switches exactly at the UTC instant of that transition (or one second
    // around it); the last type is the rule's standard or daylight type, so both verdicts occur
    run_cases(ctx, &mut rep, 7, ctx.n(40_000, 600_000), |l, rng, _| {
        use crate::model::cal;
        use crate::model::rule::{AltSpec, Day};
        let nrec = 1 + rng.below(4) as usize;
        let base = rng.range(0, 3_000_000_000);
        let mut leaps = vec![];
        let mut corr = 0i32;
        for k in 0..nrec {
            corr += if rng.chance(1, 5) { -1 } else { 1 };
            leaps.push((base + k as i64 * (2_419_199 + rng.range(0, 40_000_000)), corr));
        }
        for k in 1..nrec {
            if leaps[k].0 - leaps[k - 1].0 < 2_419_199 {
                return;
            }
        }
        let table = LeapTable(leaps.clone());
        if !table.valid() {
            return;
        }
        let j = rng.below(nrec as u64) as usize;
        let t_last = leaps[j].0 + rng.range(-1, 1);
        let u = table.g(t_last);
        if u < 0 || u > 8_000_000_000 {
            return;
        }
        let u = u as i64 + rng.range(-1, 1); // the rule's switch instant
        let c = cal::civil_from_unix(u);
        let jan1 = cal::days_from_civil(c.year, 1, 1) * 86400;
        let n = ((u - jan1) / 86400) as u16;
        let sod = (u - jan1) % 86400;
        let std_off = (rng.range(-48, 48) * 900) as i32;
        let dst_off = std_off + *rng.pick(&[3600, 1800, -3600]);
        let std = TypeSpec::new(std_off, false, Some("SSS"));
        let dst = TypeSpec::new(dst_off, true, Some("DDD"));
        let far = Day::N((n + 150 + rng.below(60) as u16) % 365);
        // switch into DST at u (start) or out of it (end)
        let a = if rng.chance(1, 2) {
            AltSpec { std: std.clone(), dst: dst.clone(), start: Day::N(n), start_time: sod as i32 + std_off, end: far, end_time: 7200 }
        } else {
            AltSpec { std: std.clone(), dst: dst.clone(), start: far, start_time: 7200, end: Day::N(n), end_time: sod as i32 + dst_off }
        };
        let last_type = rng.below(2) as usize;
        let z = ZoneSpec { transitions: vec![(t_last - 5_000_000, 1 - last_type), (t_last, last_type)], types: vec![std, dst], leaps: table, rule: Some(RuleSpec::Alt(a)) };
        judge(l, &z, "rule_switch_on_the_last_transition", None);
        // the same zone with one defect in its leap table: the leap clause is violated first, whatever the (now
        // shifted) rule check would say - the error names the leap table
        for (name, f) in [
            ("junction_zone_first_correction_2", Box::new(|t: &mut Vec<(i64, i32)>| t[0].1 *= 2) as Box<dyn Fn(&mut Vec<(i64, i32)>)>),
            ("junction_zone_first_correction_0", Box::new(|t: &mut Vec<(i64, i32)>| t[0].1 = 0)),
            (
                "junction_zone_step_0",
                Box::new(|t: &mut Vec<(i64, i32)>| {
                    let k = t.len() - 1;
                    if k > 0 {
                        t[k].1 = t[k - 1].1
                    } else {
                        t[0].1 = -2 * t[0].1
                    }
                }),
            ),
            (
                "junction_zone_step_2",
                Box::new(|t: &mut Vec<(i64, i32)>| {
                    let k = t.len() - 1;
                    t[k].1 += if t[k].1 > 0 { 1 } else { -1 };
                }),
            ),
        ] {
            let mut p = z.clone();
            f(&mut p.leaps.0);
            judge(l, &p, name, Some(E::InvalidLeapSecond));
        }
        l.op_n("TimeZone::new + TimeZoneRef::new", 8);
        if t_last == leaps[j].0 {
            l.class("last_transition_on_a_leap_record_with_rule_switch_there");
        }
        l.op_n("TimeZone::new + TimeZoneRef::new", 2);
        l.distinct_hash(Fnv::new().b(z.describe().as_bytes()).get());
    });
    // random malformed tuples
    run_cases(ctx, &mut rep, 3, ctx.n(150_000, 2_000_000), |l, rng, _| {
        let z = gen_garbage(rng);
        judge(l, &z, "random_tuple", None);
        l.op_n("TimeZone::new + TimeZoneRef::new", 2);
        l.distinct_hash(Fnv::new().b(z.describe().as_bytes()).get());
    });
    // local time types
    let good: &[u8] = b"ABCDEFGHIJKLMNOPQRSTUVWXYZabcdefghijklmnopqrstuvwxyz0123456789+-";
    let bad: &[u8] = b" _.,:/<>\0\n@*\x7f\x80\xff";
    run_enum(ctx, &mut rep, 4, 10 * 5, |l, rng, i| {
        let len = (i % 10) as usize;
        let off = [0, 3600, i32::MIN, i32::MAX, i32::MIN + 1][(i / 10) as usize];
        for _ in 0..200 {
            let mut d: Vec<u8> = (0..len).map(|_| *rng.pick(good)).collect();
            if len > 0 && rng.chance(1, 3) {
                let k = rng.below(len as u64) as usize;
                d[k] = *rng.pick(bad);
            }
            check_ltt(l, off, rng.chance(1, 2), Some(&d));
            l.distinct_hash(Fnv::new().b(&d).i(off as i64).get());
        }
        check_ltt(l, off, false, None);
        l.op_n("LocalTimeType::new", 201);
    });
    // long designations: lengths around the width limits of narrow integers (a length reduced modulo 256 or 65536
    // before the 3..=7 test passes for 259..=263 octets), all of good characters, some with a bad character at the
    // end (never examined by a constructor that has cut the input)
    run_cases(ctx, &mut rep, 6, 1, |l, rng, _| {
        let mut lens: Vec<usize> = vec![];
        for base in [0usize, 256, 512, 1024, 32768, 65536, 131072] {
            for d in 0..=9 {
                lens.push(base + d);
            }
            if base >= 8 {
                lens.extend([base - 3, base - 2, base - 1]);
            }
        }
        lens.extend([100, 255, 300, 4096, 65535 + 8]);
        lens.sort();
        lens.dedup();
        if ctx.scale < 1.0 {
            // interpreted slices: every octet costs microseconds there; the first wrap-around of a one-octet length is kept
            lens.retain(|&n| n <= 270);
        }
        let mut n = 0;
        for &len in &lens {
            let start = rng.below(good.len() as u64) as usize;
            let mut d: Vec<u8> = good.iter().cycle().skip(start).take(len).copied().collect();
            check_ltt(l, 3600, false, Some(&d));
            n += 1;
            if len > 8 {
                l.class("ltt_designation_longer_than_255");
                let k = len - 1;
                d[k] = b',';
                check_ltt(l, 3600, true, Some(&d));
                n += 1;
            }
        }
        l.op_n("LocalTimeType::new", n);
        l.distinct_enumerated += n;
    });
    // every single byte as one of 3 characters
    run_cases(ctx, &mut rep, 5, 1, |l, _rng, _| {
        for b in 0..=255u8 {
            for pos in 0..3 {
                let mut d = *b"AbZ";
                d[pos] = b;
                check_ltt(l, 0, false, Some(&d));
            }
        }
        l.op_n("LocalTimeType::new", 768);
        l.distinct_enumerated += 768;
    });
    rep
}
