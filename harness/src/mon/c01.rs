//! C01 gmtime: Unix time -> UTC calendar fields is correct and total on the range.
//!
//! Refuting observation: a return event of `UtcDateTime::from_timespec(t, ns)` or
//! `DateTime::from_timespec(t, ns, utc)` whose fields / week day / year day differ from M-cal for
//! MIN <= t <= MAX, an `Ok` outside the range, an `Err` inside, a refusal that is not the
//! out-of-range error, or an altered nanosecond value.

use crate::core::{run_cases, run_enum, Ctx, Fnv, Local, Report};
use crate::facade::{self, E};
use crate::model::cal;
use crate::util::json::Json;
use tz::TimeZoneRef;

const MIN: i64 = -67768100567971200;
const MAX: i64 = 67767976233532799;

/// the oracle for one instant, applied to both entry points
#[inline]
pub fn check(l: &mut Local, t: i64, ns: u32, cnt: &mut u64) {
    let in_range = (MIN..=MAX).contains(&t);
    let utc = TimeZoneRef::utc();
    let r1 = facade::utc_from_timespec(t, ns);
    let r2 = facade::dt_from_timespec(t, ns, utc);
    *cnt += 2;
    if in_range {
        let c = cal::civil_from_unix(t);
        let days = t.div_euclid(86400);
        let wd = cal::weekday_of_days(days);
        let yd = (days - cal::days_from_civil(c.year, 1, 1)) as u16;
        // semantic classes, computed by the oracle from the input
        if c.month == 2 && c.day == 29 {
            l.class("feb29");
            if c.year.rem_euclid(400) == 0 {
                l.class("feb29_of_year_divisible_by_400");
            }
        }
        if c.month == 2 && c.day == 28 && c.year.rem_euclid(100) == 0 && c.year.rem_euclid(400) != 0 {
            l.class("feb28_of_century_non_leap");
        }
        if c.month == 12 && c.day == 31 {
            l.class("dec31");
        }
        if c.month <= 2 {
            l.class("jan_feb_(march_based_year_wraps)");
        }
        if t < 951868800 {
            l.class("before_2000-03-01");
            if t.rem_euclid(86400) != 0 {
                l.class("negative_second_remainder");
            }
        }
        if t < 0 {
            l.class("before_1970");
        }
        match &r1 {
            Ok(d) => {
                let ok =
                    d.year() as i64 == c.year && d.month() == c.month && d.month_day() == c.day && d.hour() == c.hour && d.minute() == c.minute && d.second() == c.second && d.week_day() == wd && d.year_day() == yd && d.nanoseconds() == ns;
                if !ok {
                    l.violation(
                        "gmtime: wrong UTC fields",
                        format!("UtcDateTime::from_timespec({}, {})", t, ns),
                        format!("{} week_day={} year_day={} ns={}", c, wd, yd, ns),
                        format!("{} week_day={} year_day={}", facade::fmt_utc(d), d.week_day(), d.year_day()),
                    );
                }
            }
            Err(e) => l.violation("gmtime: refused inside the range", format!("UtcDateTime::from_timespec({}, {})", t, ns), format!("{}", c), format!("Err({:?})", e)),
        }
        match &r2 {
            Ok(d) => {
                let ok = d.year() as i64 == c.year
                    && d.month() == c.month
                    && d.month_day() == c.day
                    && d.hour() == c.hour
                    && d.minute() == c.minute
                    && d.second() == c.second
                    && d.week_day() == wd
                    && d.year_day() == yd
                    && d.nanoseconds() == ns
                    && d.unix_time() == t
                    && d.local_time_type().ut_offset() == 0;
                if !ok {
                    l.violation(
                        "gmtime: wrong UTC fields",
                        format!("DateTime::from_timespec({}, {}, utc)", t, ns),
                        format!("{} week_day={} year_day={} ns={}", c, wd, yd, ns),
                        format!("{} week_day={} year_day={}", facade::fmt_dt(d), d.week_day(), d.year_day()),
                    );
                }
            }
            Err(e) => l.violation("gmtime: refused inside the range", format!("DateTime::from_timespec({}, {}, utc)", t, ns), format!("{}", c), format!("Err({:?})", e)),
        }
        // the third gmtime entry point: the same instant given as a nanosecond count
        let total = t as i128 * 1_000_000_000 + ns as i128;
        *cnt += 1;
        match (facade::utc_from_total_ns(total), &r1) {
            (Ok(d), Ok(e)) => {
                if d != *e || d.nanoseconds() != ns || d.week_day() != wd || d.year_day() != yd {
                    l.violation("gmtime: from_total_nanoseconds differs from from_timespec for the same instant", format!("UtcDateTime::from_total_nanoseconds({})", total), facade::fmt_utc(e), facade::fmt_utc(&d));
                }
            }
            (Err(e), Ok(_)) => l.violation("gmtime: refused inside the range", format!("UtcDateTime::from_total_nanoseconds({})", total), format!("{}", c), format!("Err({:?})", e)),
            _ => {}
        }
        if t == MIN || t == MAX {
            l.class("range_edge_ok");
        }
    } else {
        if t == MIN - 1 || t == MAX + 1 {
            l.class("range_edge_err");
        }
        if t == i64::MIN || t == i64::MAX {
            l.class("i64_extreme_err");
        }
        match &r1 {
            Err(E::OutOfRange) => {}
            Err(e) => l.violation("gmtime: wrong error outside the range", format!("UtcDateTime::from_timespec({}, {})", t, ns), "Err(OutOfRange)".into(), format!("Err({:?})", e)),
            Ok(d) => l.violation("gmtime: accepted outside the range", format!("UtcDateTime::from_timespec({}, {})", t, ns), "Err(OutOfRange)".into(), facade::fmt_utc(d)),
        }
        match &r2 {
            Err(E::OutOfRange) => {}
            Err(e) => l.violation("gmtime: wrong error outside the range", format!("DateTime::from_timespec({}, {}, utc)", t, ns), "Err(OutOfRange)".into(), format!("Err({:?})", e)),
            Ok(d) => l.violation("gmtime: accepted outside the range", format!("DateTime::from_timespec({}, {}, utc)", t, ns), "Err(OutOfRange)".into(), facade::fmt_dt(d)),
        }
    }
}

fn sample(t: i64, ns: u32) -> Json {
    let r = facade::utc_from_timespec(t, ns);
    Json::obj().set("call", format!("UtcDateTime::from_timespec({}, {})", t, ns)).set(
        "observed",
        match r {
            Ok(d) => format!("{} week_day={} year_day={}", facade::fmt_utc(&d), d.week_day(), d.year_day()),
            Err(e) => format!("Err({:?})", e),
        },
    )
}

pub const SODS: [i64; 7] = [0, 1, 59, 60, 3599, 43200, 86399];

pub fn edge_instants() -> Vec<i64> {
    let mut v = vec![];
    for d in -3..=3i64 {
        v.push(MIN.wrapping_add(d));
        v.push(MAX.wrapping_add(d));
        v.push(i64::MIN.wrapping_add(d.abs()));
        v.push(i64::MAX.wrapping_sub(d.abs()));
        v.push(951868800 + d);
        v.push(i64::MIN + 951868800 + d);
        v.push(i64::MIN + 951868800 + 86400 + d);
        v.push(d);
        v.push(-86400 + d);
        v.push(86400 + d);
        v.push(946684800 + d); // 2000-01-01
        v.push(-62167219200 + d); // 0000-01-01
        v.push(-62135596800 + d); // 0001-01-01
        v.push(MIN + 86400 * 366 + d);
        v.push(MAX - 86400 * 366 + d);
    }
    v
}

pub fn run(ctx: &Ctx) -> Report {
    let mut rep = Report::new("C01");
    rep.rule = "cases = (instant, ns) pairs pushed through UtcDateTime::from_timespec, UtcDateTime::from_total_nanoseconds and DateTime::from_timespec(.., utc) and compared field by field with M-cal (era-based calendar, odometer-validated). \
                Enumerated: every day of the 400-year cycle 2000-03-01..2400-02-29 x 7 seconds-of-day; every second of 8 chosen days; range / i64 edges; thorough adds every 400-year cycle of the i32 year range x 14 probe days and all days of 3 x 800..3600 years. \
                Random: uniform in range and uniform over i64. distinct_nontrivial = distinct instants evaluated (enumerated ones are distinct by construction, random ones counted through a hash set)."
        .into();
    rep.required_classes = vec![
        "feb29",
        "feb29_of_year_divisible_by_400",
        "feb28_of_century_non_leap",
        "dec31",
        "jan_feb_(march_based_year_wraps)",
        "before_2000-03-01",
        "negative_second_remainder",
        "before_1970",
        "range_edge_ok",
        "range_edge_err",
        "i64_extreme_err",
        "count_whose_seconds_are_not_an_i64",
        "cycles_of_400_years_probed",
    ];
    if let Err(e) = cal::self_test() {
        rep.inconclusive.push(format!("model self-test failed: {}", e));
        return rep;
    }

    // wl 1: the complete 400-year cycle, day by day
    let cycle_start = cal::days_from_civil(2000, 3, 1);
    run_enum(ctx, &mut rep, 1, 146097, |l, _rng, i| {
        let day = cycle_start + i as i64;
        let mut cnt = 0;
        for sod in SODS {
            check(l, day * 86400 + sod, (i as u32).wrapping_mul(7919) % 1_000_000_000, &mut cnt);
        }
        l.op_n("from_timespec", cnt);
        l.distinct_enumerated += SODS.len() as u64;
        if i % 40000 == 17 {
            l.sample(|| sample(day * 86400 + 43200, 5));
        }
    });

    // wl 2: every second of 8 days (chunks of one hour)
    let days8: [i64; 8] = [
        cal::days_from_civil(2000, 2, 29),
        cal::days_from_civil(1969, 12, 31),
        cal::days_from_civil(1970, 1, 1),
        cal::days_from_civil(1900, 2, 28),
        cal::days_from_civil(-1, 12, 31),
        cal::days_from_civil(i32::MIN as i64, 1, 1),
        cal::days_from_civil(i32::MAX as i64, 12, 31),
        cal::days_from_civil(2400, 2, 29),
    ];
    run_enum(ctx, &mut rep, 2, 8 * 24, |l, _rng, i| {
        let day = days8[(i / 24) as usize % 8];
        let hour = (i % 24) as i64;
        let mut cnt = 0;
        for s in 0..ctx.inner(3600) as i64 {
            check(l, day * 86400 + hour * 3600 + s, s as u32, &mut cnt);
        }
        l.op_n("from_timespec", cnt);
        l.distinct_enumerated += ctx.inner(3600);
    });

    // wl 3: edges
    let edges = edge_instants();
    run_enum(ctx, &mut rep, 3, edges.len() as u64, |l, _rng, i| {
        let mut cnt = 0;
        let t = edges[i as usize];
        check(l, t, 0, &mut cnt);
        check(l, t, 999_999_999, &mut cnt);
        l.op_n("from_timespec", cnt);
        l.distinct_hash(Fnv::new().i(t).get());
        if i % 29 == 0 {
            l.sample(|| sample(t, 999_999_999));
        }
    });

    // wl 8: nanosecond counts whose second count is not an i64 (a narrowing conversion would wrap them into the
    // range): k * 2^64 s + an in-range second count, and random i128 values; all must be refused
    run_cases(ctx, &mut rep, 8, ctx.n(200, 2000), |l, rng, i| {
        let g = 1_000_000_000i128;
        let mut n = 0;
        for j in 0..50u64 {
            let s_in = match j % 5 {
                0 => 0,
                1 => MIN,
                2 => MAX,
                3 => rng.range(-4_000_000_000, 4_000_000_000),
                _ => rng.range(MIN, MAX),
            } as i128;
            let k: i128 = match (i + j) % 6 {
                0 => 1,
                1 => -1,
                2 => 2,
                3 => -(rng.range(1, 9_000_000_000) as i128),
                4 => rng.range(1, 9_000_000_000) as i128,
                _ => *rng.pick(&[3i128, -2, 1 << 20, -(1 << 20), 9_223_372_036, -9_223_372_036]),
            };
            let secs = k.checked_mul(1i128 << 64).and_then(|x| x.checked_add(s_in));
            let total = match secs.and_then(|x| x.checked_mul(g)).and_then(|x| x.checked_add(rng.below(1_000_000_000) as i128)) {
                Some(t) => t,
                None => ((rng.next() as i128) << 64) | rng.next() as i128,
            };
            let secs = total.div_euclid(g);
            if secs >= MIN as i128 && secs <= MAX as i128 {
                continue;
            }
            n += 1;
            l.class("count_whose_seconds_are_not_an_i64");
            if let Ok(d) = facade::utc_from_total_ns(total) {
                l.violation("gmtime: nanosecond count outside the supported range accepted", format!("UtcDateTime::from_total_nanoseconds({})", total), "Err(OutOfRange)".into(), facade::fmt_utc(&d));
            }
            if let Ok(d) = facade::dt_from_total_ns(total, tz::TimeZoneRef::utc()) {
                l.violation("gmtime: nanosecond count outside the supported range accepted", format!("DateTime::from_total_nanoseconds({}, utc)", total), "Err(OutOfRange)".into(), facade::fmt_dt(&d));
            }
            l.distinct_hash(Fnv::new().i(total as i64).i((total >> 64) as i64).get());
        }
        l.op_n("from_total_nanoseconds", 2 * n);
    });

    // wl 4: random inside the range, wl 5: random over i64
    let per = ctx.inner(1000);
    run_cases(ctx, &mut rep, 4, ctx.n(1000, 64000), |l, rng, _i| {
        let mut cnt = 0;
        for _ in 0..per {
            let t = rng.range(MIN, MAX);
            check(l, t, rng.below(1_000_000_000) as u32, &mut cnt);
            l.distinct_hash(Fnv::new().i(t).get());
        }
        l.op_n("from_timespec", cnt);
    });
    run_cases(ctx, &mut rep, 5, ctx.n(1000, 8000), |l, rng, _i| {
        let mut cnt = 0;
        for _ in 0..per {
            let t = if rng.chance(1, 2) { rng.i64_any() } else { rng.i64_log() };
            check(l, t, rng.below(1_000_000_000) as u32, &mut cnt);
            l.distinct_hash(Fnv::new().i(t).get());
        }
        l.op_n("from_timespec", cnt);
    });

    // wl 6: 400-year cycles over the whole i32 year range, 14 probe days each (days relative to Mar 1 of year 400k),
    // first and last second of each: thorough = every cycle; quick = the 257 cycles around year 2000 (years
    // -49200..53600), the first and last 64, and every 251st cycle in between
    {
        let first_cycle = (i32::MIN as i64).div_euclid(400) - 1;
        let last_cycle = (i32::MAX as i64).div_euclid(400) + 1;
        let n_cycles = (last_cycle - first_cycle + 1) as u64;
        let stride: u64 = if ctx.quick() { 251 } else { 1 };
        let near: i64 = 128;
        let n_strided = (n_cycles + stride - 1) / stride;
        let n_extra: u64 = if ctx.quick() { (2 * near + 1) as u64 + 128 } else { 0 };
        let cycle_at = |j: u64| -> Option<i64> {
            if j < n_strided {
                Some(first_cycle + (j * stride) as i64)
            } else {
                let e = (j - n_strided) as i64;
                if e >= n_extra as i64 {
                    None
                } else if e <= 2 * near {
                    Some(5 - near + e)
                } else if e - 2 * near - 1 < 64 {
                    Some(first_cycle + (e - 2 * near - 1))
                } else {
                    Some(last_cycle - (e - 2 * near - 1 - 64))
                }
            }
        };
        let total = n_strided + n_extra;
        let probes: [i64; 14] = [0, 1, 36523, 36524, 73047, 73048, 109571, 109572, 146096, 146095, 305, 306, 1460, 1461];
        let chunk = if ctx.quick() { 64u64 } else { 1024u64 };
        run_cases(ctx, &mut rep, 6, (total + chunk - 1) / chunk, |l, _rng, i| {
            let mut cnt = 0;
            let mut cycles = 0;
            for k in 0..chunk {
                let cyc = match cycle_at(i * chunk + k) {
                    Some(c) if c <= last_cycle => c,
                    _ => continue,
                };
                cycles += 1;
                let base = cal::days_from_civil(cyc * 400, 3, 1);
                for p in probes {
                    for sod in [0i64, 86399] {
                        let t = (base + p) as i128 * 86400 + sod as i128;
                        if t >= i64::MIN as i128 && t <= i64::MAX as i128 {
                            check(l, t as i64, 1, &mut cnt);
                            l.distinct_enumerated += 1;
                        }
                    }
                }
            }
            l.op_n("from_timespec", cnt);
            l.class_n("cycles_of_400_years_probed", cycles);
        });
    }
    if !ctx.quick() {
        // wl 7: all days of long year ranges
        let ranges: [(i64, i64); 3] = [(-800, 2800), (i32::MIN as i64, i32::MIN as i64 + 800), (i32::MAX as i64 - 800, i32::MAX as i64)];
        for (ri, (y0, y1)) in ranges.iter().enumerate() {
            let d0 = cal::days_from_civil(*y0, 1, 1);
            let d1 = cal::days_from_civil(*y1, 12, 31);
            let n = (d1 - d0 + 1) as u64;
            let chunk = 512u64;
            run_cases(ctx, &mut rep, 70 + ri as u64, (n + chunk - 1) / chunk, |l, _rng, i| {
                let mut cnt = 0;
                for k in 0..chunk {
                    let d = d0 + (i * chunk + k) as i64;
                    if d > d1 {
                        break;
                    }
                    check(l, d * 86400, 0, &mut cnt);
                    check(l, d * 86400 + 86399, 0, &mut cnt);
                    l.distinct_enumerated += 2;
                }
                l.op_n("from_timespec", cnt);
            });
        }
        rep.exhaustive = true;
        rep.notes.push("exhaustive for the quotient (day in 400-year cycle) x 7 seconds-of-day, and for (cycle index) x 14 probe days over the whole i32 year range; not exhaustive over i64".into());
    }
    rep
}
