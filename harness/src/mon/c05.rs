//! C05 / C06 / C17: the local-time search (mktime).
//!
//! One workload, three monitors (separate property ids, separate evidence):
//!  C05  Normal entries are exactly M-find's set, convert back, `unique()` is right;
//!  C06  Skipped entries are exactly M-find's gaps, reported once at the transition instant with the
//!       types before/after, list ascending, earliest()/latest() are the extremes;
//!  C17  find_n with every buffer length 0..k+2 against the allocating search.
//! M-find is evaluated twice: with M-zone's forward lookup and with the implementation's own.

use crate::core::{run_cases, Ctx, Fnv, Local, Report};
use crate::facade::{self, E};
use crate::gen::rule::{gen_interleaving, iana_alt_rules};
use crate::gen::zone::{gen_zone, probe_locals, rule_only, RuleMode, ZoneCfg};
use crate::model::cal;
use crate::model::find::{expected, fmt_entries, Entry, Expected};
use crate::model::rule::{AltSpec, Day, TypeSpec};
use crate::model::zone::{Fwd, RuleSpec, ZoneSpec};
use crate::mon::common::{build, impl_fwd, note_build_failure};
use crate::util::json::Json;
use crate::util::rng::Rng;
use tz::datetime::FoundDateTimeKind;
use tz::{DateTime, TimeZoneRef};

#[derive(Clone, Copy, PartialEq, Eq, Debug)]
pub enum Which {
    C05,
    C06,
    C17,
}

pub fn same_dt(a: &DateTime, b: &DateTime) -> bool {
    a.unix_time() == b.unix_time()
        && a.nanoseconds() == b.nanoseconds()
        && a.year() == b.year()
        && a.month() == b.month()
        && a.month_day() == b.month_day()
        && a.hour() == b.hour()
        && a.minute() == b.minute()
        && a.second() == b.second()
        && a.local_time_type() == b.local_time_type()
}

pub fn same_kind(a: &FoundDateTimeKind, b: &FoundDateTimeKind) -> bool {
    match (a, b) {
        (FoundDateTimeKind::Normal(x), FoundDateTimeKind::Normal(y)) => same_dt(x, y),
        (FoundDateTimeKind::Skipped { before_transition: a1, after_transition: a2 }, FoundDateTimeKind::Skipped { before_transition: b1, after_transition: b2 }) => same_dt(a1, b1) && same_dt(a2, b2),
        _ => false,
    }
}

pub fn fmt_kind(k: &FoundDateTimeKind) -> String {
    match k {
        FoundDateTimeKind::Normal(d) => format!("Normal@{}{}", d.unix_time(), TypeSpec::from_tz(d.local_time_type())),
        FoundDateTimeKind::Skipped { before_transition, after_transition } => {
            format!("Skipped@{}{}->@{}{}", before_transition.unix_time(), TypeSpec::from_tz(before_transition.local_time_type()), after_transition.unix_time(), TypeSpec::from_tz(after_transition.local_time_type()))
        }
    }
}

pub fn fmt_kinds(v: &[FoundDateTimeKind]) -> String {
    format!("[{}]", v.iter().map(fmt_kind).collect::<Vec<_>>().join(", "))
}

fn observed_entries(v: &[FoundDateTimeKind]) -> Vec<Entry> {
    v.iter()
        .map(|k| match k {
            FoundDateTimeKind::Normal(d) => Entry::Normal { u: d.unix_time(), ty: TypeSpec::from_tz(d.local_time_type()) },
            FoundDateTimeKind::Skipped { before_transition, after_transition } => Entry::Gap { x: before_transition.unix_time(), before: TypeSpec::from_tz(before_transition.local_time_type()), after: TypeSpec::from_tz(after_transition.local_time_type()) },
        })
        .collect()
}

pub struct Search {
    pub y: i32,
    pub mo: u8,
    pub d: u8,
    pub h: u8,
    pub mi: u8,
    pub s: u8,
    pub ns: u32,
    /// civil seconds denoted by the fields
    pub c: i64,
}

impl Search {
    /// fields for civil seconds c; `sixty`: write the start of a minute as second 60 of the previous one
    pub fn from_civil_seconds(c: i64, ns: u32, sixty: bool) -> Search {
        if sixty {
            let c0 = c - c.rem_euclid(60);
            let f = cal::civil_from_unix(c0 - 60);
            Search { y: f.year as i32, mo: f.month, d: f.day, h: f.hour, mi: f.minute, s: 60, ns, c: c0 }
        } else {
            let f = cal::civil_from_unix(c);
            Search { y: f.year as i32, mo: f.month, d: f.day, h: f.hour, mi: f.minute, s: f.second, ns, c }
        }
    }
    pub fn describe(&self) -> String {
        format!("{}-{:02}-{:02}T{:02}:{:02}:{:02}.{:09}", self.y, self.mo, self.d, self.h, self.mi, self.s, self.ns)
    }
}

/// One search, judged for the property `which`. Returns the number of API calls made.
pub fn check_search(l: &mut Local, which: Which, zm: &crate::model::zone::ZoneModel<'_>, tz: TimeZoneRef<'_>, q: &Search, stale: &mut Vec<Option<FoundDateTimeKind>>) -> u64 {
    let z = zm.z;
    let mut calls = 1u64;
    let r = facade::find(q.y, q.mo, q.d, q.h, q.mi, q.s, q.ns, tz);
    let input = || format!("DateTime::find({}) on {}", q.describe(), z.describe());
    let list = match &r {
        Ok(list) => list.clone(),
        Err(e) => {
            // the statements leave the range edge open; everywhere else a valid date must be searchable
            let model_says = expected(zm, &|u| zm.forward(u), q.c);
            if which != Which::C17 {
                if let Expected::List(exp) = model_says {
                    l.violation("mktime: search fails on a valid local time", input(), fmt_entries(&exp), format!("Err({:?})", e));
                } else {
                    l.unspecified += 1;
                }
            }
            if which == Which::C17 {
                calls += check_find_n(l, z, tz, q, &r.as_ref().map(|l| l.clone().into_inner()).map_err(|e| *e), stale);
            }
            return calls;
        }
    };
    let got = list.clone().into_inner();
    let obs = observed_entries(&got);

    if which == Which::C17 {
        calls += check_find_n(l, z, tz, q, &Ok(got.clone()), stale);
        // when exhaustive the three selectors must agree: checked inside check_find_n
        return calls;
    }

    // classes (from the oracle's point of view where possible)
    let model_exp = expected(zm, &|u| zm.forward(u), q.c);
    let impl_exp = expected(zm, &|u| impl_fwd(tz, u), q.c);
    calls += 2 * z.offsets().len() as u64;
    for (name, exp) in [("M-zone forward lookup", &model_exp), ("the implementation's own forward lookup", &impl_exp)] {
        let exp = match exp {
            Expected::List(e) => e,
            Expected::Unspec => {
                l.unspecified += 1;
                continue;
            }
        };
        let exp_normals: Vec<&Entry> = exp.iter().filter(|e| matches!(e, Entry::Normal { .. })).collect();
        let obs_normals: Vec<&Entry> = obs.iter().filter(|e| matches!(e, Entry::Normal { .. })).collect();
        let exp_gaps: Vec<&Entry> = exp.iter().filter(|e| matches!(e, Entry::Gap { .. })).collect();
        let obs_gaps: Vec<&Entry> = obs.iter().filter(|e| matches!(e, Entry::Gap { .. })).collect();
        if name.starts_with("M-zone") {
            match exp_normals.len() {
                0 => l.class("normal_results_0"),
                1 => l.class("normal_results_1"),
                2 => l.class("normal_results_2"),
                _ => l.class("normal_results_3+"),
            }
            match exp_gaps.len() {
                0 => {}
                1 => l.class("gap_results_1"),
                _ => l.class("gap_results_2+"),
            }
            if !exp_gaps.is_empty() && !exp_normals.is_empty() {
                l.class("gap_and_normal_together");
            }
            if q.s == 60 {
                l.class("second_60");
            }
            if !z.leaps.is_empty() {
                l.class("leap_table");
            }
            let n = z.transitions.len();
            for e in exp {
                let inst = e.instant() as i128;
                if n > 0 {
                    let first = zm.transition_instant(0);
                    let last = zm.transition_instant(n - 1);
                    match e {
                        Entry::Normal { .. } => {
                            if inst < first {
                                l.class("normal_in_first_interval");
                            } else if inst >= last {
                                l.class("normal_governed_by_rule");
                                if inst == last {
                                    l.class("normal_exactly_at_junction");
                                }
                            } else if (0..n).any(|k| zm.transition_instant(k) == inst) {
                                l.class("normal_exactly_on_a_transition");
                            }
                        }
                        Entry::Gap { .. } => {
                            if inst == last {
                                l.class("gap_at_table_rule_junction");
                            } else if inst > last {
                                l.class("gap_at_rule_transition");
                            } else {
                                l.class("gap_at_table_transition");
                            }
                        }
                    }
                } else if z.rule.is_some() {
                    match e {
                        Entry::Normal { .. } => l.class("normal_governed_by_rule"),
                        Entry::Gap { .. } => l.class("gap_at_rule_transition"),
                    }
                }
            }
            if n > 0 && z.rule.is_none() {
                // last transition without rule: a forward jump there must stay silent
                let last = zm.transition_instant(n - 1);
                if (q.c as i128 - last).abs() < 200_000 {
                    l.class("near_last_transition_without_rule");
                }
            }
            if let Some(RuleSpec::Alt(a)) = &z.rule {
                let y = q.y as i64;
                if (y - 1..=y + 1).any(|k| a.s(k) == a.e(k) || a.e(k) == a.s(k + 1) || a.s(k) == a.e(k + 1)) {
                    l.class("coincident_rule_transitions_near_search");
                }
            }
        }
        match which {
            Which::C05 => {
                if exp_normals != obs_normals {
                    l.violation(
                        "mktime: valid results are not exactly the instants showing the searched local time",
                        input(),
                        format!("valid results {} (clock defined by {})", fmt_entries(&exp_normals.iter().map(|e| (*e).clone()).collect::<Vec<_>>()), name),
                        format!("{}", fmt_kinds(&got)),
                    );
                }
            }
            Which::C06 => {
                if exp_gaps != obs_gaps {
                    l.violation(
                        "mktime: skipped results are not exactly the gaps containing the searched local time",
                        input(),
                        format!("gaps {} (clock defined by {})", fmt_entries(&exp_gaps.iter().map(|e| (*e).clone()).collect::<Vec<_>>()), name),
                        format!("{}", fmt_kinds(&got)),
                    );
                } else if *exp != obs {
                    // same sets but another order (or the Normal part differs: that is C05's business unless the order is off)
                    let sorted = obs.windows(2).all(|w| w[0].instant() <= w[1].instant());
                    if !sorted {
                        l.violation("mktime: results are not in ascending order of instant", input(), fmt_entries(exp), fmt_kinds(&got));
                    }
                }
            }
            Which::C17 => {}
        }
    }
    // implementation-only checks (no model needed)
    match which {
        Which::C05 => {
            for k in &got {
                if let FoundDateTimeKind::Normal(d) = k {
                    // fields as searched (second 60 kept), nanoseconds as given
                    let fields_ok = d.year() == q.y && d.month() == q.mo && d.month_day() == q.d && d.hour() == q.h && d.minute() == q.mi && d.second() == q.s && d.nanoseconds() == q.ns;
                    if !fields_ok {
                        l.violation("mktime: a valid result does not carry the searched fields", input(), q.describe(), facade::fmt_dt(d));
                    }
                    // converts back: same type, same fields (second 60 normalised)
                    calls += 1;
                    match facade::dt_from_timespec(d.unix_time(), q.ns, tz) {
                        Ok(back) => {
                            let norm = Search::from_civil_seconds(q.c, q.ns, false);
                            let ok = back.local_time_type() == d.local_time_type() && back.year() == norm.y && back.month() == norm.mo && back.month_day() == norm.d && back.hour() == norm.h && back.minute() == norm.mi && back.second() == norm.s;
                            if !ok {
                                l.violation("mktime: a valid result does not convert back to the searched local time", input(), format!("{} with type {}", norm.describe(), TypeSpec::from_tz(d.local_time_type())), facade::fmt_dt(&back));
                            }
                        }
                        Err(e) => l.violation("mktime: a valid result does not convert back", input(), "Ok".into(), format!("Err({:?}) at {}", e, d.unix_time())),
                    }
                }
            }
            let uniq = list.unique();
            let want_unique = matches!(got.as_slice(), [FoundDateTimeKind::Normal(_)]);
            match (uniq, want_unique) {
                (Some(u), true) => {
                    if let FoundDateTimeKind::Normal(d) = &got[0] {
                        if !same_dt(&u, d) {
                            l.violation("mktime: unique() is not the single valid result", input(), facade::fmt_dt(d), facade::fmt_dt(&u));
                        }
                    }
                }
                (None, false) => {}
                (u, w) => l.violation("mktime: unique() present exactly when there is a single valid result and nothing else", input(), format!("unique present = {}", w), format!("{:?} for {}", u.map(|d| facade::fmt_dt(&d)), fmt_kinds(&got))),
            }
            // the same answer through the buffer-based search, on a buffer that still holds the entries of earlier
            // searches (re-using one buffer is the documented use): unique() must not see stale entries
            {
                let mut buf: Vec<Option<FoundDateTimeKind>> = (0..got.len() + 2).map(|i| stale.get(i).copied().flatten()).collect();
                if buf.iter().skip(got.len()).any(|e| e.is_some()) {
                    l.class("unique_through_a_reused_buffer");
                }
                calls += 1;
                if let Ok(res) = facade::find_n(&mut buf, q.y, q.mo, q.d, q.h, q.mi, q.s, q.ns, tz) {
                    let u2 = res.unique();
                    let same = match (&u2, &uniq) {
                        (None, None) => true,
                        (Some(a), Some(b)) => same_dt(a, b),
                        _ => false,
                    };
                    if !same {
                        l.violation("mktime: unique() of the buffer-based search (re-used buffer) differs from the allocating search", input(), format!("{:?}", uniq.map(|d| facade::fmt_dt(&d))), format!("{:?}", u2.map(|d| facade::fmt_dt(&d))));
                    }
                }
                // remember this search's entries for the next one
                for (i, k) in got.iter().enumerate() {
                    if i < stale.len() {
                        stale[i] = Some(*k);
                    } else {
                        stale.push(Some(*k));
                    }
                }
            }
            // localtime followed by the search recovers the instant: done by the caller with round_trip()
        }
        Which::C06 => {
            for k in &got {
                if let FoundDateTimeKind::Skipped { before_transition, after_transition } = k {
                    if before_transition.unix_time() != after_transition.unix_time() {
                        l.violation("mktime: the two halves of a skipped result are different instants", input(), "same instant".into(), fmt_kind(k));
                    }
                    if before_transition.local_time_type().ut_offset() >= after_transition.local_time_type().ut_offset() {
                        l.violation("mktime: a skipped result whose transition does not move the clock forward", input(), "offset after > offset before".into(), fmt_kind(k));
                    }
                    if before_transition.nanoseconds() != q.ns || after_transition.nanoseconds() != q.ns {
                        l.violation("mktime: nanoseconds altered in a skipped result", input(), format!("{}", q.ns), fmt_kind(k));
                    }
                }
            }
            // ascending, no duplicates
            let inst: Vec<i64> = obs.iter().map(|e| e.instant()).collect();
            if !inst.windows(2).all(|w| w[0] <= w[1]) {
                l.violation("mktime: results are not in ascending order of instant", input(), "ascending".into(), fmt_kinds(&got));
            }
            let mut gaps: Vec<i64> = obs.iter().filter_map(|e| if let Entry::Gap { x, .. } = e { Some(*x) } else { None }).collect();
            let before = gaps.len();
            gaps.dedup();
            if gaps.len() != before {
                l.violation("mktime: a gap is reported more than once", input(), "each gap once".into(), fmt_kinds(&got));
            }
            // earliest / latest are the first / last by instant
            let e = list.earliest();
            let la = list.latest();
            let want_e = got.first().map(|k| match k {
                FoundDateTimeKind::Normal(d) => *d,
                FoundDateTimeKind::Skipped { before_transition, .. } => *before_transition,
            });
            let want_l = got.last().map(|k| match k {
                FoundDateTimeKind::Normal(d) => *d,
                FoundDateTimeKind::Skipped { after_transition, .. } => *after_transition,
            });
            let okp = |a: &Option<DateTime>, b: &Option<DateTime>| match (a, b) {
                (None, None) => true,
                (Some(x), Some(y)) => same_dt(x, y),
                _ => false,
            };
            if !okp(&e, &want_e) || !okp(&la, &want_l) {
                l.violation("mktime: earliest()/latest() are not the first/last result", input(), format!("{:?} / {:?}", want_e.map(|d| facade::fmt_dt(&d)), want_l.map(|d| facade::fmt_dt(&d))), format!("{:?} / {:?}", e.map(|d| facade::fmt_dt(&d)), la.map(|d| facade::fmt_dt(&d))));
            }
            // the same selectors through the buffer-based search on a buffer still holding the entries of earlier
            // searches: stale entries beyond the reported ones must not be seen
            {
                let mut buf: Vec<Option<FoundDateTimeKind>> = (0..got.len() + 2).map(|i| stale.get(i).copied().flatten()).collect();
                if buf.iter().skip(got.len()).any(|x| x.is_some()) {
                    l.class("earliest_latest_through_a_reused_buffer");
                }
                calls += 1;
                if let Ok(res) = facade::find_n(&mut buf, q.y, q.mo, q.d, q.h, q.mi, q.s, q.ns, tz) {
                    let (e2, l2) = (res.earliest(), res.latest());
                    if !okp(&e2, &want_e) || !okp(&l2, &want_l) {
                        l.violation(
                            "mktime: earliest()/latest() of the buffer-based search (re-used buffer) are not the first/last result",
                            input(),
                            format!("{:?} / {:?}", want_e.map(|d| facade::fmt_dt(&d)), want_l.map(|d| facade::fmt_dt(&d))),
                            format!("{:?} / {:?}", e2.map(|d| facade::fmt_dt(&d)), l2.map(|d| facade::fmt_dt(&d))),
                        );
                    }
                }
                for (i, k) in got.iter().enumerate() {
                    if i < stale.len() {
                        stale[i] = Some(*k);
                    } else {
                        stale.push(Some(*k));
                    }
                }
            }
            // and they are the true extremes over all instants mentioned
            if let (Some(e), Some(la)) = (e, la) {
                let min = inst.iter().min().copied().unwrap_or(e.unix_time());
                let max = inst.iter().max().copied().unwrap_or(la.unix_time());
                if e.unix_time() != min || la.unix_time() != max {
                    l.violation("mktime: earliest()/latest() are not the extremes", input(), format!("{} / {}", min, max), format!("{} / {}", e.unix_time(), la.unix_time()));
                }
            }
        }
        Which::C17 => {}
    }
    calls
}

/// C17: buffers of every length 0..k+2, pre-filled with stale entries of a previous search
fn check_find_n(l: &mut Local, z: &ZoneSpec, tz: TimeZoneRef<'_>, q: &Search, alloc: &Result<Vec<FoundDateTimeKind>, E>, stale: &mut Vec<Option<FoundDateTimeKind>>) -> u64 {
    let k = alloc.as_ref().map(|v| v.len()).unwrap_or(1);
    let mut calls = 0;
    match k {
        0 => l.class("k=0"),
        1 => l.class("k=1"),
        2 => l.class("k=2"),
        _ => l.class("k>=3"),
    }
    for n in 0..=k + 2 {
        // stale content: entries of earlier searches, recognisable by their nanosecond tag (searches use ns < 900_000_000)
        let mut buf: Vec<Option<FoundDateTimeKind>> = (0..n).map(|i| stale.get(i).copied().flatten().map(Some).unwrap_or(None)).collect();
        let before = buf.clone();
        let input = || format!("DateTime::find_n(buffer of {} slots, {}) on {}", n, q.describe(), z.describe());
        calls += 1;
        let r = facade::find_n(&mut buf, q.y, q.mo, q.d, q.h, q.mi, q.s, q.ns, tz);
        let (nalloc, bytes) = facade::last_find_n_allocations();
        if nalloc > 0 {
            l.violation("find_n: the allocation-free search allocates", input(), "0 heap allocations inside DateTime::find_n".into(), format!("{} allocations, {} bytes", nalloc, bytes));
        } else {
            l.class("no_allocation_inside_find_n");
        }
        if z.types.len() > 8 {
            l.class("zone_with_more_than_8_types");
        }
        match (r, alloc) {
            (Ok(res), Ok(full)) => {
                let m = n.min(k);
                let data: Vec<Option<FoundDateTimeKind>> = res.data().to_vec();
                let count = res.count();
                let exhaustive = res.is_exhaustive();
                let (u, e, la) = (res.unique(), res.earliest(), res.latest());
                let data_ok = data.len() == m && data.iter().zip(full.iter()).all(|(a, b)| a.as_ref().map(|a| same_kind(a, b)).unwrap_or(false));
                if !data_ok {
                    l.violation("find_n: data() is not the first min(n, k) results of the allocating search", input(), fmt_kinds(&full[..m]), format!("{:?}", data.iter().map(|o| o.as_ref().map(fmt_kind)).collect::<Vec<_>>()));
                }
                if count != k {
                    l.violation("find_n: count() is not the total number of results", input(), format!("{}", k), format!("{}", count));
                }
                if exhaustive != (n >= k) {
                    l.violation("find_n: is_exhaustive() must be true exactly when n >= k", input(), format!("{}", n >= k), format!("{}", exhaustive));
                }
                if n > k {
                    l.class("buffer_larger_than_k");
                }
                if n < k {
                    l.class("buffer_smaller_than_k");
                }
                if n == 0 {
                    l.class("buffer_empty");
                }
                // slots beyond those reported must be untouched
                for i in m..n {
                    let same = match (&buf[i], &before[i]) {
                        (None, None) => true,
                        (Some(a), Some(b)) => same_kind(a, b),
                        _ => false,
                    };
                    if !same {
                        l.violation("find_n: a buffer slot beyond the reported ones was modified", input(), format!("slot {} = {:?}", i, before[i].as_ref().map(fmt_kind)), format!("slot {} = {:?}", i, buf[i].as_ref().map(fmt_kind)));
                    }
                    if before[i].is_some() {
                        l.class("stale_slot_preserved");
                    }
                }
                if n >= k {
                    // selectors equal those of the allocating search
                    let want_u = if let [FoundDateTimeKind::Normal(d)] = full.as_slice() { Some(*d) } else { None };
                    let want_e = full.first().map(|x| match x {
                        FoundDateTimeKind::Normal(d) => *d,
                        FoundDateTimeKind::Skipped { before_transition, .. } => *before_transition,
                    });
                    let want_l = full.last().map(|x| match x {
                        FoundDateTimeKind::Normal(d) => *d,
                        FoundDateTimeKind::Skipped { after_transition, .. } => *after_transition,
                    });
                    let okp = |a: &Option<DateTime>, b: &Option<DateTime>| match (a, b) {
                        (None, None) => true,
                        (Some(x), Some(y)) => same_dt(x, y),
                        _ => false,
                    };
                    if !okp(&u, &want_u) || !okp(&e, &want_e) || !okp(&la, &want_l) {
                        l.violation(
                            "find_n: unique/earliest/latest differ from the allocating search when exhaustive",
                            input(),
                            format!("{:?} / {:?} / {:?}", want_u.map(|d| facade::fmt_dt(&d)), want_e.map(|d| facade::fmt_dt(&d)), want_l.map(|d| facade::fmt_dt(&d))),
                            format!("{:?} / {:?} / {:?}", u.map(|d| facade::fmt_dt(&d)), e.map(|d| facade::fmt_dt(&d)), la.map(|d| facade::fmt_dt(&d))),
                        );
                    }
                }
            }
            (Err(e1), Err(e2)) => {
                l.class("error_case");
                if e1 != *e2 {
                    l.violation("find_n: error differs from the allocating search", input(), format!("Err({:?})", e2), format!("Err({:?})", e1));
                }
            }
            (Ok(res), Err(e2)) => l.violation("find_n: succeeds where the allocating search fails", input(), format!("Err({:?})", e2), format!("count {}", res.count())),
            (Err(e1), Ok(full)) => l.violation("find_n: fails where the allocating search succeeds", input(), fmt_kinds(full), format!("Err({:?})", e1)),
        }
    }
    // the next search sees this one's results as stale content (tagged by their own nanoseconds)
    if let Ok(full) = alloc {
        stale.clear();
        for kd in full.iter().take(6) {
            stale.push(Some(*kd));
        }
        while stale.len() < 6 {
            stale.push(None);
        }
    }
    calls
}

/// localtime followed by the search recovers the original instant (C05)
fn round_trip(l: &mut Local, z: &ZoneSpec, tz: TimeZoneRef<'_>, u: i64) -> u64 {
    let d = match facade::dt_from_timespec(u, 123, tz) {
        Ok(d) => d,
        Err(_) => return 1,
    };
    if d.year() < i32::MIN + 4 || d.year() > i32::MAX - 4 {
        return 1;
    }
    match facade::find(d.year(), d.month(), d.month_day(), d.hour(), d.minute(), d.second(), 123, tz) {
        Ok(list) => {
            let v = list.into_inner();
            let hit = v.iter().filter(|k| matches!(k, FoundDateTimeKind::Normal(x) if x.unix_time() == u && x.local_time_type() == d.local_time_type())).count();
            if hit != 1 {
                l.violation("mktime: localtime followed by the search does not recover the instant exactly once", format!("from_timespec({}) = {} then DateTime::find on {}", u, facade::fmt_dt(&d), z.describe()), format!("one Normal entry at {}", u), fmt_kinds(&v));
            }
        }
        Err(e) => {
            // near the range edge the search may refuse (statement silent); elsewhere it must not
            if d.unix_time() > cal::min_unix() + (1 << 33) && d.unix_time() < cal::max_unix() - (1 << 33) {
                l.violation("mktime: the search fails on a local time produced by localtime", format!("from_timespec({}) = {} then DateTime::find on {}", u, facade::fmt_dt(&d), z.describe()), "Ok".into(), format!("Err({:?})", e));
            }
        }
    }
    2
}

fn zone_hash(z: &ZoneSpec, c: i64) -> u64 {
    let mut h = Fnv::new().i(z.transitions.len() as i64).i(c);
    for &(t, i) in z.transitions.iter().take(8) {
        h = h.i(t).i(i as i64);
    }
    for t in &z.types {
        h = h.i(t.off as i64);
    }
    if let Some(RuleSpec::Alt(a)) = &z.rule {
        h = h.i(a.start_time as i64).i(a.end_time as i64).i(a.std.off as i64);
    }
    h.get()
}

pub fn check_zone(l: &mut Local, which: Which, z: &ZoneSpec, rng: &mut Rng, max_tr: usize, nrandom: usize, max_searches: usize) {
    let b = match build(z) {
        Ok(b) => b,
        Err(e) => {
            if which == Which::C05 {
                note_build_failure(l, z, &e);
            }
            return;
        }
    };
    let tz = b.tz.as_ref();
    let mut locals = probe_locals(z, rng, max_tr, nrandom);
    if locals.len() > max_searches {
        // keep a random subset (the tie constructions are spread over the whole list)
        for i in 0..max_searches {
            let j = i + rng.below((locals.len() - i) as u64) as usize;
            locals.swap(i, j);
        }
        locals.truncate(max_searches);
    }
    let mut stale: Vec<Option<FoundDateTimeKind>> = vec![None; 6];
    let mut calls = 0;
    let zm = z.model();
    for (i, &c) in locals.iter().enumerate() {
        let ns = ((c as u64).wrapping_mul(2654435761) % 900_000_000) as u32;
        let q = Search::from_civil_seconds(c, ns, i % 9 == 4);
        calls += check_search(l, which, &zm, tz, &q, &mut stale);
        l.distinct_hash(zone_hash(z, q.c));
    }
    if which == Which::C05 {
        // round trips at transition instants and random instants
        let n = z.transitions.len();
        for k in (0..n).take(6) {
            let x = zm.transition_instant(k);
            if x > cal::min_unix() as i128 / 2 && x < cal::max_unix() as i128 / 2 {
                for d in [-1i64, 0, 1] {
                    if let Fwd::Type(_) = zm.forward(x as i64 + d) {
                        calls += round_trip(l, z, tz, x as i64 + d);
                        l.class("round_trip_localtime_then_search");
                    }
                }
            }
        }
        for _ in 0..3 {
            let u = rng.range(-4_000_000_000, 8_000_000_000);
            calls += round_trip(l, z, tz, u);
            l.class("round_trip_localtime_then_search");
        }
    }
    l.op_n("DateTime::find / find_n / from_timespec / find_local_time_type", calls);
}

/// the F3 class: rules the constructor accepts although their DST periods overlap; witnesses of
/// known_findings.json are replayed here (workload 900) so that they stay visible
pub fn f3_witnesses() -> Vec<(AltSpec, Vec<i64>)> {
    let a = AltSpec {
        std: TypeSpec::new(-46603, false, Some("STD")),
        dst: TypeSpec::new(-28549, true, Some("DST")),
        start: Day::J(2),
        start_time: -317943,
        end: Day::J(365),
        end_time: 100704,
    };
    let y = 2001;
    let cs = vec![a.s(y) + a.std.off as i64, a.e(y) + a.dst.off as i64, a.s(y) + a.dst.off as i64 + 1800, cal::days_from_civil(y, 6, 1) * 86400];
    vec![(a, cs)]
}

/// the F5 class: two table transitions taking effect at the same UTC instant (the first recorded on
/// an inserted leap second, the second right after it); witnesses of known_findings.json (workload 901)
pub fn f5_witnesses() -> Vec<(ZoneSpec, Vec<i64>)> {
    let z = ZoneSpec {
        transitions: vec![(999, 1), (1000, 2), (1001, 1)],
        types: vec![TypeSpec::new(0, false, Some("AAA")), TypeSpec::new(3600, false, Some("BBB")), TypeSpec::new(-3600, false, Some("CCC"))],
        leaps: crate::model::leap::LeapTable(vec![(1000, 1)]),
        rule: Some(RuleSpec::Fixed(TypeSpec::new(3600, false, Some("BBB")))),
    };
    // the clock shows BBB before, at and after UTC 1000; CCC is in effect during the inserted second only
    let cs = vec![1000 - 3600 + 1800, 1000 + 1800, 1000 + 3600, 1000 - 3600];
    vec![(z, cs)]
}

pub fn run_which(ctx: &Ctx, which: Which) -> Report {
    let mut rep = Report::new(match which {
        Which::C05 => "C05",
        Which::C06 => "C06",
        Which::C17 => "C17",
    });
    rep.rule = "cases = (zone, local time) searches. Zones: table only / rule only (IANA footers, idioms, random interleaving rules, tie rules) / table + fixed rule / table + DST rule with the junction on, just before and just after a rule instant / with leap seconds of both signs; offsets up to +-i32 so that 3+ candidates overlap; transitions 1 s apart. \
                Local times: for every (sampled) transition X and every offset o of the zone, X + o + delta, delta in {0, +-1, +-2, +-1800, +-3599, +-3600} (exactly the interval ends of the search), rule instants of the years around, New Year +-1, second 60, random. \
                Oracle: M-find (valid results = {c - o : forward(c - o) has offset o}; gaps from the clock at X-1 and X), evaluated with M-zone's forward lookup and with the implementation's own. distinct_nontrivial = distinct (zone, local time) pairs."
        .into();
    rep.required_classes = match which {
        Which::C05 => vec![
            "normal_results_0",
            "normal_results_1",
            "normal_results_2",
            "normal_results_3+",
            "normal_exactly_on_a_transition",
            "normal_in_first_interval",
            "normal_governed_by_rule",
            "normal_exactly_at_junction",
            "second_60",
            "leap_table",
            "round_trip_localtime_then_search",
            "coincident_rule_transitions_near_search",
            "unique_through_a_reused_buffer",
        ],
        Which::C06 => vec![
            "gap_results_1",
            "gap_results_2+",
            "gap_at_table_transition",
            "gap_at_rule_transition",
            "gap_at_table_rule_junction",
            "near_last_transition_without_rule",
            "gap_and_normal_together",
            "coincident_rule_transitions_near_search",
            "leap_table",
            "earliest_latest_through_a_reused_buffer",
        ],
        Which::C17 => vec!["k=0", "k=1", "k=2", "k>=3", "buffer_empty", "buffer_smaller_than_k", "buffer_larger_than_k", "stale_slot_preserved", "error_case", "error_while_an_entry_is_built", "error_after_an_earlier_result", "error_on_the_first_result", "no_allocation_inside_find_n", "zone_with_more_than_8_types"],
    };
    if let Err(e) = crate::mon::c03::self_tests() {
        rep.inconclusive.push(format!("model self-test failed: {}", e));
        return rep;
    }
    let iana = iana_alt_rules();
    // wl 1: rule-only zones from the IANA footers and idioms
    run_cases(ctx, &mut rep, 1, ctx.n(iana.len() as u64, iana.len() as u64 * 8), |l, rng, i| {
        let a = &iana[i as usize % iana.len()];
        let z = rule_only(a);
        check_zone(l, which, &z, rng, 8, 6, ctx.inner(400) as usize);
        if i % 11 == 0 {
            l.sample(|| Json::obj().set("zone", z.describe()));
        }
    });
    // wl 2: rule-only zones from random interleaving and tie rules
    run_cases(ctx, &mut rep, 2, ctx.n(20_000, 600_000), |l, rng, _| {
        let (a, _) = gen_interleaving(rng);
        let z = rule_only(&a);
        check_zone(l, which, &z, rng, 8, 3, ctx.inner(60) as usize);
    });
    // wl 3: generated zones of every shape
    let cfg = ZoneCfg::search();
    run_cases(ctx, &mut rep, 3, ctx.n(100_000, 3_000_000), |l, rng, i| {
        let z = gen_zone(rng, &cfg);
        check_zone(l, which, &z, rng, 6, 4, ctx.inner(40) as usize);
        if i % 9000 == 5 {
            l.sample(|| Json::obj().set("zone", z.describe()));
        }
    });
    // wl 4: table-only zones with many close transitions and large offset jumps (3+ overlapping candidates)
    run_cases(ctx, &mut rep, 4, ctx.n(20_000, 600_000), |l, rng, _| {
        let mut c = ZoneCfg::search();
        c.rule = if rng.chance(1, 2) { RuleMode::None } else { RuleMode::Fixed };
        c.leaps = rng.chance(1, 3);
        let mut z = gen_zone(rng, &c);
        // squeeze the table: consecutive transitions 1..3 s apart
        if z.transitions.len() >= 3 && z.leaps.is_empty() {
            let n = z.transitions.len();
            let mut t = z.transitions[n - 1].0;
            for k in (0..n - 1).rev() {
                t -= 1 + (k as i64 % 3);
                z.transitions[k].0 = t;
            }
        }
        check_zone(l, which, &z, rng, 12, 3, ctx.inner(80) as usize);
    });
    // wl 6: the real zones of the vendored tzdata tree (posix and right: leap tables, footers, v3 files), judged by M-find
    if let Ok((_paths, blobs)) = crate::mon::c08::load_corpus(&ctx.corpus) {
        let nfiles = if ctx.quick() { 120 } else { blobs.len() as u64 };
        crate::core::run_enum(ctx, &mut rep, 6, nfiles, |l, rng, i| {
            let k = if ctx.quick() { (i as usize * 7 + ctx.seed as usize) % blobs.len() } else { i as usize };
            if let Ok(tz) = tz::TimeZone::from_tz_data(&blobs[k]) {
                let z = ZoneSpec::from_tz(&tz.as_ref());
                check_zone(l, which, &z, rng, 30, 6, ctx.inner(500) as usize);
                l.class("iana_zone_file");
            }
        });
    } else if ctx.scale >= 1.0 {
        rep.inconclusive.push("vendored corpus not readable".into());
    }
    if which == Which::C17 {
        // wl 5: searches that fail (not a date, ns >= 1e9, range edge, year guard of DST rules): same error from both searches
        run_cases(ctx, &mut rep, 5, ctx.n(2000, 50_000), |l, rng, _| {
            let z = gen_zone(rng, &cfg);
            let b = match build(&z) {
                Ok(b) => b,
                Err(_) => return,
            };
            let tz = b.tz.as_ref();
            let zm = z.model();
            let mut stale = vec![None; 6];
            let mut calls = 0;
            for k in 0..8 {
                let (y, mo, d, h, mi, s, ns) = match k {
                    0 => (2024, 2, 30, 0, 0, 0, 0),
                    1 => (2023, 13, 1, 0, 0, 0, 0),
                    2 => (2023, 6, 15, 24, 0, 0, 0),
                    3 => (2023, 6, 15, 0, 0, 61, 0),
                    4 => (2023, 6, 15, 0, 0, 0, 1_000_000_000),
                    5 => (i32::MAX, 12, 31, 23, 59, 59, 5),
                    6 => (i32::MIN, 1, 1, 0, 0, 0, 5),
                    _ => (*rng.pick(&[i32::MAX - 1, i32::MIN + 1, i32::MAX - 2, i32::MIN + 2]), 1 + rng.below(12) as u8, 1 + rng.below(28) as u8, rng.below(24) as u8, 0, 60, 7),
                };
                let q = Search { y, mo, d, h, mi, s, ns, c: 0 };
                calls += check_search(l, which, &zm, tz, &q, &mut stale);
            }
            l.op_n("DateTime::find / find_n (error cases)", calls);
            l.distinct_hash(zone_hash(&z, -1));
        });
        // wl 7: searches that fail *while an entry is being built*: a forward table transition within an offset of either
        // end of the supported range, so that one side of its gap entry has no calendar date; the searched local time
        // itself is a valid date inside the gap (or at its edges), optionally shown once before by an earlier type.
        // The allocating search fails with the range error whatever it found before; so must the buffer-based one,
        // for every buffer length (a buffer that is already full is no reason to skip the conversion that fails)
        run_cases(ctx, &mut rep, 7, ctx.n(3000, 60_000), |l, rng, _| {
            let top = rng.chance(1, 2);
            let x = if top { cal::max_unix() - rng.range(0, 7200) } else { cal::min_unix() + rng.range(0, 7200) };
            let (a, b2) = if top {
                let a = rng.range(-600, 600);
                (a, a + rng.range(1, 7200))
            } else {
                let b2 = rng.range(-600, 600);
                (b2 - rng.range(1, 7200), b2)
            };
            let dd = rng.range(7400, 200_000);
            let with_earlier = rng.chance(1, 2);
            let mut types = vec![TypeSpec::new(a as i32, false, Some("AAA")), TypeSpec::new(b2 as i32, true, Some("BBB")), TypeSpec::new((a + dd) as i32, false, Some("EEE"))];
            let mut transitions: Vec<(i64, usize)> = vec![];
            if with_earlier {
                // EEE before the first transition: it shows the searched local time dd seconds earlier
                types.swap(0, 2);
                transitions.push((x - dd + 7300, 2));
                transitions.push((x, 1));
            } else {
                transitions.push((x, 1));
            }
            let rule = match rng.below(3) {
                0 => Some(RuleSpec::Fixed(TypeSpec::new(b2 as i32, true, Some("BBB")))),
                1 => {
                    transitions.push((x.saturating_add(rng.range(1, 1_000_000)), if with_earlier { 2 } else { 0 }));
                    None
                }
                _ => None,
            };
            let z = ZoneSpec { transitions, types, leaps: Default::default(), rule };
            let b = match build(&z) {
                Ok(b) => b,
                Err(e) => {
                    l.harness_errors.push(format!("C17 wl 7: generated zone refused: {} {}", e, z.describe()));
                    return;
                }
            };
            let tz = b.tz.as_ref();
            let zm = z.model();
            let mut stale = vec![None; 6];
            let mut calls = 0;
            // stale content first: an ordinary search far from the edges
            calls += check_search(l, which, &zm, tz, &Search::from_civil_seconds(1_000_000_000, 11, false), &mut stale);
            for c in [x + a, x + a + rng.range(0, b2 - a - 1), x + b2 - 1, x + b2, x + a - 1] {
                if c < cal::min_unix() || c > cal::max_unix() {
                    continue;
                }
                let q = Search::from_civil_seconds(c, 13, false);
                let r = facade::find(q.y, q.mo, q.d, q.h, q.mi, q.s, q.ns, tz);
                if r.is_err() {
                    l.class("error_while_an_entry_is_built");
                    l.class(if with_earlier { "error_after_an_earlier_result" } else { "error_on_the_first_result" });
                }
                calls += 1 + check_search(l, which, &zm, tz, &q, &mut stale);
            }
            l.op_n("DateTime::find / find_n (range ends)", calls);
            l.distinct_hash(zone_hash(&z, -2));
        });
        // wl 8: zones with many local time types and long tables (9..=60 types, one transition every few hours cycling
        // through them, with or without a fixed rule): per-type scratch space must not come from the heap
        run_cases(ctx, &mut rep, 8, ctx.n(1500, 30_000), |l, rng, _| {
            let nt = rng.range(9, 60) as usize;
            let types: Vec<TypeSpec> = (0..nt).map(|i| TypeSpec::new((i as i32 - nt as i32 / 2) * 900 + rng.range(0, 60) as i32, i % 2 == 1, Some(&format!("T{:02}", i)))).collect();
            let ntr = rng.range(1, 200) as usize;
            let mut t = rng.range(-2_000_000_000, 2_000_000_000);
            let mut transitions = vec![];
            for k in 0..ntr {
                transitions.push((t, if rng.chance(1, 4) { rng.below(nt as u64) as usize } else { (k + 1) % nt }));
                t += rng.range(1, 40_000);
            }
            let rule = if rng.chance(1, 2) { Some(RuleSpec::Fixed(types[transitions[ntr - 1].1].clone())) } else { None };
            let z = ZoneSpec { transitions, types, leaps: Default::default(), rule };
            let b = match build(&z) {
                Ok(b) => b,
                Err(e) => {
                    l.harness_errors.push(format!("C17 wl 8: generated zone refused: {} {}", e, z.describe()));
                    return;
                }
            };
            let tz = b.tz.as_ref();
            let zm = z.model();
            let mut stale = vec![None; 6];
            let mut calls = 0;
            for _ in 0..6 {
                let (x, k) = *rng.pick(&z.transitions);
                let c = x + z.types[k].off as i64 + rng.range(-20_000, 20_000);
                calls += check_search(l, which, &zm, tz, &Search::from_civil_seconds(c, 17, false), &mut stale);
            }
            l.op_n("DateTime::find / find_n (many types)", calls);
            l.distinct_hash(zone_hash(&z, -3));
        });
    }
    if which != Which::C17 {
        // wl 900: witnesses of the known finding F3 (overlapping DST periods); judged with the implementation's own clock
        run_cases(ctx, &mut rep, 900, f3_witnesses().len() as u64, |l, _rng, i| {
            let (a, cs) = &f3_witnesses()[i as usize];
            let z = rule_only(a);
            let b = match build(&z) {
                Ok(b) => b,
                Err(_) => return,
            };
            let tz = b.tz.as_ref();
            let mut stale = vec![None; 6];
            let zm = z.model();
            for &c in cs {
                let q = Search::from_civil_seconds(c, 0, false);
                check_search(l, which, &zm, tz, &q, &mut stale);
                l.op("DateTime::find (known-finding witness)");
            }
        });
    }
    if which == Which::C06 {
        run_cases(ctx, &mut rep, 901, f5_witnesses().len() as u64, |l, _rng, i| {
            let (z, cs) = &f5_witnesses()[i as usize];
            let b = match build(z) {
                Ok(b) => b,
                Err(_) => return,
            };
            let tz = b.tz.as_ref();
            let mut stale = vec![None; 6];
            let zm = z.model();
            for &c in cs {
                let q = Search::from_civil_seconds(c, 0, false);
                check_search(l, which, &zm, tz, &q, &mut stale);
                l.op("DateTime::find (known-finding witness)");
            }
        });
    }
    rep
}
