//! Helpers shared by the zone monitors.

use crate::core::Local;
use crate::facade::{self, E};
use crate::model::rule::TypeSpec;
use crate::model::zone::{Fwd, ZoneSpec};
use tz::timezone::{LeapSecond, LocalTimeType, TimeZone, Transition, TransitionRule};
use tz::TimeZoneRef;

pub struct Built {
    pub tz: TimeZone,
    pub tr: Vec<Transition>,
    pub ty: Vec<LocalTimeType>,
    pub lp: Vec<LeapSecond>,
    pub rule: Option<TransitionRule>,
}

/// Build a generated (valid by construction) zone through both constructors. A refusal is reported
/// to the caller, which decides what it means for its property.
pub fn build(z: &ZoneSpec) -> Result<Built, String> {
    let (tr, ty, lp, rule) = z.tz_parts()?;
    let tz = TimeZone::new(tr.clone(), ty.clone(), lp.clone(), rule).map_err(|e| format!("TimeZone::new: {:?}", e))?;
    Ok(Built { tz, tr, ty, lp, rule })
}

impl Built {
    /// the borrowed flavour, built independently of the owned one
    pub fn borrowed(&self) -> Result<TimeZoneRef<'_>, String> {
        TimeZoneRef::new(&self.tr, &self.ty, &self.lp, &self.rule).map_err(|e| format!("TimeZoneRef::new: {:?}", e))
    }
}

/// the implementation's own forward lookup, projected to the model's vocabulary
pub fn impl_fwd(tz: TimeZoneRef<'_>, u: i64) -> Fwd {
    match facade::lookup(tz, u) {
        Ok(l) => Fwd::Type(TypeSpec::from_tz(l)),
        Err(E::NoAvailableLocalTimeType) => Fwd::NoType,
        Err(_) => Fwd::Unspec,
    }
}

pub fn note_build_failure(l: &mut Local, z: &ZoneSpec, err: &str) {
    l.class("generated_zone_refused");
    l.violation("zone valid by construction (C13 statement) refused by the constructor", z.describe(), "Ok".into(), err.to_string());
}
