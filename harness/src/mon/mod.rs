//! One monitor per property.
pub mod c01;

use crate::core::{Ctx, Report};

pub fn run(property: &str, ctx: &Ctx) -> Option<Report> {
    Some(match property {
        "C01" => c01::run(ctx),
        _ => return None,
    })
}
