//! One monitor per property.
pub mod c01;
pub mod c02;
pub mod c03;
pub mod c04;
pub mod c05;
pub mod c07;
pub mod c08;
pub mod c09;
pub mod c10;
pub mod c11;
pub mod c12;
pub mod c13;
pub mod c14;
pub mod c15;
pub mod common;
pub mod c16;
pub mod c18;
pub mod c19gen;
pub mod c20;

use crate::core::{Ctx, Report};

pub fn run(property: &str, ctx: &Ctx) -> Option<Report> {
    Some(match property {
        "C01" => c01::run(ctx),
        "C02" => c02::run(ctx),
        "C03" => c03::run(ctx),
        "C04" => c04::run(ctx),
        "C05" => c05::run_which(ctx, c05::Which::C05),
        "C06" => c05::run_which(ctx, c05::Which::C06),
        "C17" => c05::run_which(ctx, c05::Which::C17),
        "C07" => c07::run(ctx),
        "C08" => c08::run(ctx),
        "C09" => c09::run(ctx),
        "C10" => c10::run(ctx),
        "C11" => c11::run(ctx),
        "C12" => c12::run(ctx),
        "C13" => c13::run(ctx),
        "C14" => c14::run(ctx),
        "C15" => c15::run(ctx),
        "C16" => c16::run(ctx),
        "C18" => c18::run(ctx),
        "C19GEN" => c19gen::run(ctx),
        "C20" => c20::run(ctx),
        _ => return None,
    })
}
