//! One monitor per property.
pub mod c01;
pub mod c02;
pub mod c16;
pub mod c18;

use crate::core::{Ctx, Report};

pub fn run(property: &str, ctx: &Ctx) -> Option<Report> {
    Some(match property {
        "C01" => c01::run(ctx),
        "C02" => c02::run(ctx),
        "C16" => c16::run(ctx),
        "C18" => c18::run(ctx),
        _ => return None,
    })
}
