//! C02 timegm: calendar -> Unix time is the exact monotone inverse; bad dates refused.
//!
//! Refuting observations: `UtcDateTime::new` Ok on a non-date / Err on a date (seconds 0..=60; the
//! single excluded instant i32::MAX-12-31T23:59:60); `unix_time()` != M-cal's count; a round trip
//! that is not the identity (second < 60); two date-times whose calendar order and Unix order differ.

use crate::core::{run_cases, run_enum, Ctx, Fnv, Local, Report};
use crate::facade;
use crate::model::cal;
use crate::util::json::Json;
use crate::util::rng::Rng;

pub const YEARS: [i32; 58] = [
    i32::MIN,
    i32::MIN + 1,
    i32::MIN + 2,
    -2147483600,
    -2000000000,
    -1000001,
    -10000,
    -9999,
    -2001,
    -2000,
    -1601,
    -1600,
    -401,
    -400,
    -399,
    -101,
    -100,
    -99,
    -5,
    -4,
    -3,
    -1,
    0,
    1,
    3,
    4,
    5,
    99,
    100,
    101,
    399,
    400,
    401,
    1599,
    1600,
    1601,
    1899,
    1900,
    1901,
    1968,
    1969,
    1970,
    1971,
    1972,
    1999,
    2000,
    2001,
    2023,
    2024,
    2100,
    2399,
    2400,
    9999,
    10000,
    2000000000,
    i32::MAX - 2,
    i32::MAX - 1,
    i32::MAX,
];

pub const CORNERS: [(u8, u8, u8, u32); 16] = [
    (0, 0, 0, 0),
    (23, 59, 59, 999_999_999),
    (23, 59, 60, 0),
    (12, 30, 60, 7),
    (24, 0, 0, 0),
    (0, 60, 0, 0),
    (0, 0, 61, 0),
    (0, 0, 0, 1_000_000_000),
    (12, 30, 30, 5),
    (255, 255, 255, u32::MAX),
    (23, 59, 0, 999_999_999),
    (0, 0, 59, 1),
    // second 60 away from 23:59 (accepted at any minute; at the top of the range only 23:59:60 is out)
    (23, 0, 60, 7),
    (23, 58, 60, 0),
    (0, 0, 60, 1),
    (22, 59, 60, 0),
];

fn excluded_max(y: i32, mo: u8, d: u8, h: u8, mi: u8, s: u8) -> bool {
    y == i32::MAX && mo == 12 && d == 31 && h == 23 && mi == 59 && s == 60
}

/// one constructor observation against the validity oracle (+ value checks when accepted)
#[allow(clippy::too_many_arguments)]
pub fn check_new(l: &mut Local, y: i32, mo: u8, d: u8, h: u8, mi: u8, s: u8, ns: u32) {
    let valid = cal::valid_civil(y as i64, mo, d, h, mi, s, ns) && !excluded_max(y, mo, d, h, mi, s);
    let r = facade::utc_new(y, mo, d, h, mi, s, ns);
    let input = || format!("UtcDateTime::new({}, {}, {}, {}, {}, {}, {})", y, mo, d, h, mi, s, ns);
    // classes
    if mo == 2 && d == 29 {
        l.class(if valid { "feb29_accepted" } else { "feb29_refused" });
    }
    if mo == 2 && d == 30 {
        l.class("feb30");
    }
    if mo == 4 && d == 31 {
        l.class("apr31");
    }
    if mo == 0 || mo == 13 {
        l.class("month_0_or_13");
    }
    if d == 0 || d == 32 {
        l.class("day_0_or_32");
    }
    if h == 24 {
        l.class("hour_24");
    }
    if s == 60 && valid {
        l.class("second_60_accepted");
    }
    if s == 61 {
        l.class("second_61");
    }
    if ns == 1_000_000_000 {
        l.class("ns_1e9");
    }
    if excluded_max(y, mo, d, h, mi, s) {
        l.class("excluded_maximum");
    }
    match r {
        Ok(dt) => {
            if !valid {
                l.violation("timegm: non-date accepted", input(), "Err".into(), facade::fmt_utc(&dt));
                return;
            }
            let exp = cal::unix_from_civil(y as i64, mo, d, h, mi, s);
            let got = dt.unix_time();
            if got != exp {
                l.violation("timegm: wrong Unix time", input(), format!("unix_time {}", exp), format!("unix_time {}", got));
            }
            let getters_ok = dt.year() == y && dt.month() == mo && dt.month_day() == d && dt.hour() == h && dt.minute() == mi && dt.second() == s && dt.nanoseconds() == ns;
            if !getters_ok {
                l.violation("timegm: getters do not return the constructor arguments", input(), "same fields".into(), facade::fmt_utc(&dt));
            }
            let days = cal::days_from_civil(y as i64, mo as u32, d as i64);
            if dt.week_day() != cal::weekday_of_days(days) || dt.year_day() as i64 != days - cal::days_from_civil(y as i64, 1, 1) {
                l.violation("timegm: wrong week day / year day", input(), format!("week_day {} year_day {}", cal::weekday_of_days(days), days - cal::days_from_civil(y as i64, 1, 1)), format!("week_day {} year_day {}", dt.week_day(), dt.year_day()));
            }
            if y < 1970 && cal::is_leap(y as i64) && mo >= 3 {
                l.class("leap_year_before_1970_month>=3");
            }
            if y >= 1970 && cal::is_leap(y as i64) && mo < 3 {
                l.class("leap_year_after_1970_month<3");
            }
            if y == 1969 || y == 1970 {
                l.class("the_1970_seam");
            }
            // calendar -> unix -> calendar
            if s < 60 {
                match facade::utc_from_timespec(got, ns) {
                    Ok(back) => {
                        if back != dt {
                            l.violation("timegm: calendar -> Unix -> calendar is not the identity", input(), facade::fmt_utc(&dt), facade::fmt_utc(&back));
                        }
                    }
                    Err(e) => l.violation("timegm: calendar -> Unix -> calendar fails", input(), facade::fmt_utc(&dt), format!("Err({:?})", e)),
                }
            } else {
                // second 60 equals second 0 of the next minute
                match facade::utc_from_timespec(got, ns) {
                    Ok(back) => {
                        if back.second() != 0 || back.unix_time() != got {
                            l.violation("timegm: second 60 is not second 0 of the next minute", input(), "second 0 of next minute".into(), facade::fmt_utc(&back));
                        }
                    }
                    Err(e) => l.violation("timegm: second 60 maps outside the range", input(), "Ok".into(), format!("Err({:?})", e)),
                }
            }
        }
        Err(e) => {
            if valid {
                l.violation("timegm: real date refused", input(), "Ok".into(), format!("Err({:?})", e));
            }
        }
    }
}

/// Unix -> calendar -> Unix
pub fn check_unix_round_trip(l: &mut Local, t: i64) {
    if let Ok(dt) = facade::utc_from_timespec(t, 0) {
        if dt.unix_time() != t {
            l.violation("timegm: Unix -> calendar -> Unix is not the identity", format!("UtcDateTime::from_timespec({}, 0).unix_time()", t), format!("{}", t), format!("{} via {}", dt.unix_time(), facade::fmt_utc(&dt)));
        }
        match facade::utc_new(dt.year(), dt.month(), dt.month_day(), dt.hour(), dt.minute(), dt.second(), 0) {
            Ok(d2) => {
                if d2 != dt || d2.unix_time() != t {
                    l.violation("timegm: rebuilding the fields gives another value", format!("from_timespec({})", t), facade::fmt_utc(&dt), facade::fmt_utc(&d2));
                }
            }
            Err(e) => l.violation("timegm: fields produced by gmtime are refused by the constructor", format!("from_timespec({})", t), facade::fmt_utc(&dt), format!("Err({:?})", e)),
        }
    }
}

fn rand_fields(rng: &mut Rng) -> (i32, u8, u8, u8, u8, u8, u32) {
    let y = match rng.below(6) {
        0 => *rng.pick(&YEARS),
        1 => rng.range(-3000, 3000) as i32,
        2 => rng.range(1900, 2100) as i32,
        _ => rng.next() as i32,
    };
    let mo = rng.range(1, 12) as u8;
    let d = match rng.below(8) {
        0 => 28 + rng.below(4) as u8,
        _ => 1 + rng.below(cal::days_in_month(y as i64, mo as u32) as u64) as u8,
    };
    let h = rng.below(24) as u8;
    let mi = rng.below(60) as u8;
    let s = if rng.chance(1, 16) { 60 } else { rng.below(60) as u8 };
    (y, mo, d, h, mi, s, rng.below(1_000_000_000) as u32)
}

pub fn run(ctx: &Ctx) -> Report {
    let mut rep = Report::new("C02");
    rep.rule = "cases = field tuples given to UtcDateTime::new, judged by M-cal validity (month length rule) and compared with M-cal's day count; accepted values are round-tripped through from_timespec. \
                Enumerated: grid month 0..=13 x day 0..=32 x 12 (hour, minute, second, ns) corners x 58 representative years (thorough: all 400 residues at 40 positions of the i32 range); every day of the 400-year cycle x 4 times of day; \
                random field tuples and random pairs for the order claim. distinct_nontrivial = distinct tuples (enumerated) + distinct random tuples (hash set)."
        .into();
    rep.required_classes = vec![
        "feb29_accepted",
        "feb29_refused",
        "feb30",
        "apr31",
        "month_0_or_13",
        "day_0_or_32",
        "hour_24",
        "second_60_accepted",
        "second_61",
        "ns_1e9",
        "excluded_maximum",
        "leap_year_before_1970_month>=3",
        "leap_year_after_1970_month<3",
        "the_1970_seam",
        "order_pairs_differing_fields",
    ];
    if let Err(e) = cal::self_test() {
        rep.inconclusive.push(format!("model self-test failed: {}", e));
        return rep;
    }

    // wl 1: validity grid
    let grid = |l: &mut Local, y: i32| {
        let mut n = 0;
        for mo in 0..=13u8 {
            for d in 0..=32u8 {
                for (h, mi, s, ns) in CORNERS {
                    check_new(l, y, mo, d, h, mi, s, ns);
                    n += 1;
                }
            }
        }
        l.op_n("UtcDateTime::new", n);
        l.distinct_enumerated += n;
    };
    run_enum(ctx, &mut rep, 1, YEARS.len() as u64, |l, _rng, i| {
        grid(l, YEARS[i as usize]);
        if i == 47 {
            l.sample(|| Json::obj().set("call", "UtcDateTime::new(2023, 2, 29, 0, 0, 0, 0)").set("observed", format!("{:?}", facade::utc_new(2023, 2, 29, 0, 0, 0, 0).map(|d| facade::fmt_utc(&d)))));
            l.sample(|| Json::obj().set("call", "UtcDateTime::new(2024, 2, 29, 23, 59, 60, 7).unix_time()").set("observed", format!("{:?}", facade::utc_new(2024, 2, 29, 23, 59, 60, 7).map(|d| d.unix_time()))));
        }
    });
    // the excluded maximum and its neighbours
    run_cases(ctx, &mut rep, 2, 1, |l, _rng, _| {
        for (y, s) in [(i32::MAX, 60u8), (i32::MAX, 59), (i32::MAX - 1, 60), (i32::MIN, 60), (i32::MIN, 0)] {
            check_new(l, y, 12, 31, 23, 59, s, 0);
            check_new(l, y, 1, 1, 0, 0, 0, 0);
            l.op_n("UtcDateTime::new", 2);
            l.distinct_enumerated += 2;
        }
    });

    // wl 3: every day of the 400-year cycle (unix_time must be exactly the model's count: day d+1 is 86400 later than day d)
    let cycle_start = cal::days_from_civil(1600, 1, 1);
    run_enum(ctx, &mut rep, 3, 146097, |l, _rng, i| {
        let day = cycle_start + i as i64;
        let (y, m, d) = cal::civil_from_days(day);
        for (h, mi, s) in [(0u8, 0u8, 0u8), (23, 59, 59), (23, 59, 60), (11, 7, 3)] {
            check_new(l, y as i32, m as u8, d as u8, h, mi, s, (i % 1000) as u32);
        }
        check_unix_round_trip(l, day * 86400 + (i as i64 * 7919) % 86400);
        l.op_n("UtcDateTime::new", 4);
        l.op_n("unix round trip", 1);
        l.distinct_enumerated += 5;
    });

    // wl 4: random tuples
    let per = ctx.inner(500);
    run_cases(ctx, &mut rep, 4, ctx.n(10_000, 400_000), |l, rng, _| {
        for _ in 0..per {
            let (y, mo, d, h, mi, s, ns) = rand_fields(rng);
            check_new(l, y, mo, d, h, mi, s, ns);
            l.distinct_hash(Fnv::new().i(y as i64).i((mo as i64) << 32 | (d as i64) << 24 | (h as i64) << 16 | (mi as i64) << 8 | s as i64).get());
            check_unix_round_trip(l, rng.range(cal::min_unix(), cal::max_unix()));
        }
        l.op_n("UtcDateTime::new", per);
        l.op_n("unix round trip", per);
    });

    // wl 5: order claim on random pairs (second < 60): calendar order == Unix order, and derived Ord agrees
    run_cases(ctx, &mut rep, 5, ctx.n(2000, 100_000), |l, rng, _| {
        for _ in 0..per {
            let (y, mo, d, h, mi, s, ns) = rand_fields(rng);
            let s = s.min(59);
            // second tuple: a small perturbation of the first (so that order is decided in low fields) or independent
            let (y2, mo2, d2, h2, mi2, s2, ns2) = if rng.chance(3, 4) {
                let mut f = (y, mo, d, h, mi, s, ns);
                match rng.below(7) {
                    0 => f.0 = f.0.wrapping_add(rng.range(-1, 1) as i32),
                    1 => f.1 = rng.range(1, 12) as u8,
                    2 => f.2 = rng.range(1, 28) as u8,
                    3 => f.3 = rng.below(24) as u8,
                    4 => f.4 = rng.below(60) as u8,
                    5 => f.5 = rng.below(60) as u8,
                    _ => f.6 = rng.below(1_000_000_000) as u32,
                }
                f
            } else {
                let f = rand_fields(rng);
                (f.0, f.1, f.2, f.3, f.4, f.5.min(59), f.6)
            };
            let (a, b) = match (facade::utc_new(y, mo, d, h, mi, s, ns), facade::utc_new(y2, mo2, d2, h2, mi2, s2, ns2)) {
                (Ok(a), Ok(b)) => (a, b),
                _ => continue,
            };
            let fa = (y, mo, d, h, mi, s);
            let fb = (y2, mo2, d2, h2, mi2, s2);
            let cal_ord = fa.cmp(&fb);
            let unix_ord = a.unix_time().cmp(&b.unix_time());
            if cal_ord != std::cmp::Ordering::Equal {
                l.class("order_pairs_differing_fields");
            }
            if cal_ord != unix_ord {
                l.violation("timegm: calendar order and Unix order differ", format!("{} vs {}", facade::fmt_utc(&a), facade::fmt_utc(&b)), format!("{:?}", cal_ord), format!("unix {} vs {} = {:?}", a.unix_time(), b.unix_time(), unix_ord));
            }
            let full_ord = (fa, ns).cmp(&(fb, ns2));
            if a.cmp(&b) != full_ord {
                l.violation("timegm: derived Ord is not the calendar order", format!("{} vs {}", facade::fmt_utc(&a), facade::fmt_utc(&b)), format!("{:?}", full_ord), format!("{:?}", a.cmp(&b)));
            }
            l.distinct_hash(Fnv::new().i(a.unix_time()).i(b.unix_time()).i(ns as i64 ^ ((ns2 as i64) << 32)).get());
        }
        l.op_n("order pair", per);
    });

    if !ctx.quick() {
        // wl 6: the grid for all 400 residues at 40 positions across the i32 range
        let positions: Vec<i64> = (0..40).map(|k| (i32::MIN as i64 / 400 + 1) * 400 + k * ((u32::MAX as i64 / 400 / 39) * 400)).collect();
        run_cases(ctx, &mut rep, 6, 400 * 40, |l, _rng, i| {
            let y = positions[(i / 400) as usize] + (i % 400) as i64;
            if y >= i32::MIN as i64 && y <= i32::MAX as i64 {
                grid(l, y as i32);
            }
        });
        // wl 7: every 400-year cycle boundary
        let first = (i32::MIN as i64).div_euclid(400) + 1;
        let last = (i32::MAX as i64).div_euclid(400);
        let chunk = 1024;
        run_cases(ctx, &mut rep, 7, ((last - first + 1) as u64 + chunk - 1) / chunk, |l, _rng, i| {
            let mut n = 0;
            for k in 0..chunk {
                let c = first + (i * chunk + k) as i64;
                if c > last {
                    break;
                }
                for (y, mo, d) in [(c * 400 - 1, 12u8, 31u8), (c * 400, 1, 1), (c * 400, 2, 29), (c * 400, 3, 1), (c * 400 + 100, 2, 29), (c * 400 + 100, 2, 28)] {
                    if y >= i32::MIN as i64 && y <= i32::MAX as i64 {
                        check_new(l, y as i32, mo, d, 23, 59, 59, 0);
                        n += 1;
                    }
                }
            }
            l.op_n("UtcDateTime::new", n);
            l.distinct_enumerated += n;
        });
        rep.exhaustive = true;
        rep.notes.push("exhaustive for (year mod 400) x month 0..=13 x day 0..=32 x 16 time corners, and for the day-in-cycle quotient; not exhaustive over 2^32 years x 86401 seconds".into());
    }
    rep
}
