//! C14: a zoned date-time denotes one instant; its fields match it; projection preserves it.
//!
//! The field invariant itself is applied by the facade to *every* DateTime any workload of any check
//! obtains (count reported as c14_values_checked). This monitor adds the dedicated workload: all six
//! constructors with offsets over the full i32 range, acceptance of `DateTime::new`, projection, and
//! the comparison claims on pairs built from the same instant seen from two zones.

use crate::core::{run_cases, run_enum, Ctx, Fnv, Local, Report};
use crate::facade::{self, E};
use crate::gen::zone::{gen_zone, rand_offset, ZoneCfg};
use crate::model::cal;
use crate::model::zone::Fwd;
use crate::mon::c02::{CORNERS, YEARS};
use crate::mon::common::build;
use crate::util::json::Json;
use crate::util::rng::Rng;
use std::cmp::Ordering;
use tz::{DateTime, LocalTimeType};

#[allow(clippy::too_many_arguments)]
pub fn check_new(l: &mut Local, y: i32, mo: u8, d: u8, h: u8, mi: u8, s: u8, ns: u32, off: i32) {
    let ltt = LocalTimeType::with_ut_offset(off).unwrap();
    let valid = cal::valid_civil(y as i64, mo, d, h, mi, s, ns);
    let r = facade::dt_new(y, mo, d, h, mi, s, ns, ltt);
    let input = || format!("DateTime::new({}, {}, {}, {}, {}, {}, {}, offset {})", y, mo, d, h, mi, s, ns, off);
    if !valid {
        l.class("new_refused_not_a_date");
        if let Ok(dt) = &r {
            l.violation("zoned date-time: construction from fields that are not a real date", input(), "Err".into(), facade::fmt_dt(dt));
        }
        return;
    }
    let unix = cal::unix_from_civil(y as i64, mo, d, h, mi, s) as i128 - off as i128;
    let in_range = unix >= cal::min_unix() as i128 && unix <= cal::max_unix() as i128;
    match (&r, in_range) {
        (Ok(dt), true) => {
            l.class("new_accepted");
            if dt.unix_time() as i128 != unix || dt.local_time_type().ut_offset() != off || dt.year() != y || dt.month() != mo || dt.month_day() != d || dt.hour() != h || dt.minute() != mi || dt.second() != s || dt.nanoseconds() != ns {
                l.violation("zoned date-time: wrong instant or fields after construction", input(), format!("unix_time {}", unix), facade::fmt_dt(dt));
            }
            if s == 60 {
                l.class("second_60");
            }
            if (unix - cal::min_unix() as i128).abs() < 200_000 || (unix - cal::max_unix() as i128).abs() < 200_000 {
                l.class("new_at_range_edge_ok");
            }
        }
        (Ok(dt), false) => l.violation("zoned date-time: instant outside the supported range accepted", input(), "Err(OutOfRange)".into(), facade::fmt_dt(dt)),
        (Err(e), true) => l.violation("zoned date-time: valid construction refused", input(), format!("unix_time {}", unix), format!("Err({:?})", e)),
        (Err(e), false) => {
            l.class("new_refused_out_of_range");
            if *e != E::OutOfRange {
                l.violation("zoned date-time: wrong error for an instant outside the range", input(), "Err(OutOfRange)".into(), format!("Err({:?})", e));
            }
        }
    }
}

fn cmp_claims(l: &mut Local, a: &DateTime, b: &DateTime) {
    let want = (a.unix_time(), a.nanoseconds()).cmp(&(b.unix_time(), b.nanoseconds()));
    let eq = a == b;
    let pc = a.partial_cmp(b);
    if eq != (want == Ordering::Equal) || pc != Some(want) {
        l.violation(
            "zoned date-time: equality / ordering must depend on (Unix time, nanoseconds) only",
            format!("{} vs {}", facade::fmt_dt(a), facade::fmt_dt(b)),
            format!("== {} and partial_cmp {:?}", want == Ordering::Equal, Some(want)),
            format!("== {} and partial_cmp {:?}", eq, pc),
        );
    }
    // the derived operators as well
    if (a < b) != (want == Ordering::Less) || (a > b) != (want == Ordering::Greater) || (a <= b) != (want != Ordering::Greater) || (a != b) != (want != Ordering::Equal) {
        l.violation("zoned date-time: comparison operators disagree with (Unix time, nanoseconds)", format!("{} vs {}", facade::fmt_dt(a), facade::fmt_dt(b)), format!("{:?}", want), "operators inconsistent".into());
    }
    match want {
        Ordering::Equal => l.class("pair_same_instant"),
        _ => l.class("pair_different_instants"),
    }
    if want == Ordering::Equal && a.local_time_type() != b.local_time_type() {
        l.class("same_instant_seen_from_two_zones_compares_equal");
    }
}

fn zone_workload(l: &mut Local, rng: &mut Rng, ctx: &Ctx) {
    let cfg = ZoneCfg::search();
    let z1 = gen_zone(rng, &cfg);
    let z2 = gen_zone(rng, &cfg);
    let (b1, b2) = match (build(&z1), build(&z2)) {
        (Ok(a), Ok(b)) => (a, b),
        _ => return,
    };
    let (t1, t2) = (b1.tz.as_ref(), b2.tz.as_ref());
    let zm2 = z2.model();
    let zm1 = z1.model();
    let mut n = 0;
    for _ in 0..ctx.inner(20) {
        let u = match rng.below(3) {
            0 => rng.range(-4_000_000_000, 8_000_000_000),
            1 => {
                let k = rng.below(z1.transitions.len().max(1) as u64) as usize;
                z1.transitions.get(k).map(|t| t.0.saturating_add(rng.range(-3, 3))).unwrap_or(0).clamp(cal::min_unix() / 2, cal::max_unix() / 2)
            }
            _ => rng.range(cal::min_unix() / 2, cal::max_unix() / 2),
        };
        // whole seconds as well: a count that is an exact (negative) multiple of 1e9 is its own boundary case
        let ns = match rng.below(4) {
            0 => 0,
            1 => *rng.pick(&[1u32, 999_999_999, 500_000_000]),
            _ => rng.below(1_000_000_000) as u32,
        };
        let a = match facade::dt_from_timespec(u, ns, t1) {
            Ok(a) => a,
            Err(_) => continue,
        };
        n += 1;
        // the same value through the total-nanoseconds constructor taking the zone: same instant, same fields,
        // and the type the zone shows at that instant
        let total = u as i128 * 1_000_000_000 + ns as i128;
        match facade::dt_from_total_ns(total, t1) {
            Ok(b) => {
                n += 1;
                if !crate::mon::c05::same_dt(&a, &b) {
                    l.violation("zoned date-time: from_total_nanoseconds(.., zone) differs from from_timespec(.., zone) for the same instant", format!("total {} on {}", total, z1.describe()), facade::fmt_dt(&a), facade::fmt_dt(&b));
                }
                if total < 0 && ns != 0 {
                    l.class("zone_constructors_agree_on_negative_fractional_instants");
                }
                if total < 0 && ns == 0 {
                    l.class("zone_constructors_agree_on_negative_whole_seconds");
                }
                // and the fixed-type flavour of the same constructor
                if let Ok(c) = facade::dt_from_total_ns_and_local(total, *a.local_time_type()) {
                    n += 1;
                    if !crate::mon::c05::same_dt(&a, &c) {
                        l.violation(
                            "zoned date-time: from_total_nanoseconds_and_local differs from from_timespec(.., zone) for the same instant and type",
                            format!("total {} on {}", total, z1.describe()),
                            facade::fmt_dt(&a),
                            facade::fmt_dt(&c),
                        );
                    }
                }
            }
            Err(e) => l.violation("zoned date-time: from_total_nanoseconds(.., zone) refuses an instant from_timespec(.., zone) accepts", format!("total {} on {}", total, z1.describe()), facade::fmt_dt(&a), format!("Err({:?})", e)),
        }
        if let Fwd::Type(t) = zm1.forward(u) {
            if !t.same_as(a.local_time_type()) {
                l.violation("zoned date-time: the value does not carry the local time type of its zone at its instant", format!("DateTime::from_timespec({}, {}) on {}", u, ns, z1.describe()), format!("{}", t), facade::fmt_dt(&a));
            }
        }
        // projection: same instant, same ns, type of the target zone at that instant
        match facade::project(&a, t2) {
            Ok(p) => {
                n += 1;
                l.class("projection");
                if p.unix_time() != u || p.nanoseconds() != ns {
                    l.violation("zoned date-time: projection changed the instant", format!("{} projected into {}", facade::fmt_dt(&a), z2.describe()), format!("unix {} ns {}", u, ns), facade::fmt_dt(&p));
                }
                if let Fwd::Type(t) = zm2.forward(u) {
                    if !t.same_as(p.local_time_type()) {
                        l.violation("zoned date-time: projection carries the wrong local time type", format!("{} projected into {}", facade::fmt_dt(&a), z2.describe()), format!("{}", t), facade::fmt_dt(&p));
                    }
                }
                // equals the direct construction
                if let Ok(direct) = facade::dt_from_timespec(u, ns, t2) {
                    if !crate::mon::c05::same_dt(&p, &direct) {
                        l.violation("zoned date-time: projection differs from direct construction in the target zone", format!("{} projected into {}", facade::fmt_dt(&a), z2.describe()), facade::fmt_dt(&direct), facade::fmt_dt(&p));
                    }
                }
                cmp_claims(l, &a, &p);
                // project back
                if let Ok(back) = facade::project(&p, t1) {
                    if !crate::mon::c05::same_dt(&back, &a) {
                        l.violation("zoned date-time: projecting there and back is not the identity", facade::fmt_dt(&a), facade::fmt_dt(&a), facade::fmt_dt(&back));
                    }
                }
            }
            Err(_) => {
                // allowed only when the target zone has no type there or the shifted time leaves the calendar
                if let Fwd::Type(t) = zm2.forward(u) {
                    let sh = u as i128 + t.off as i128;
                    if sh >= cal::min_unix() as i128 && sh <= cal::max_unix() as i128 {
                        l.violation("zoned date-time: projection refused although the target zone has a type there", format!("{} projected into {}", facade::fmt_dt(&a), z2.describe()), format!("{}", t), "Err".into());
                    }
                }
            }
        }
        // a second value near the first one: ordering claims
        let (u2, ns2) = match rng.below(4) {
            0 => (u, ns),
            1 => (u, ns.wrapping_add(1) % 1_000_000_000),
            2 => (u + rng.range(-1, 1), rng.below(1_000_000_000) as u32),
            _ => (rng.range(-4_000_000_000, 8_000_000_000), rng.below(1_000_000_000) as u32),
        };
        if let Ok(b) = facade::dt_from_timespec_and_local(u2, ns2, LocalTimeType::with_ut_offset(rand_offset(rng, false)).unwrap()) {
            cmp_claims(l, &a, &b);
            n += 1;
        }
        l.distinct_hash(Fnv::new().i(u).i(ns as i64).i(z1.transitions.len() as i64).get());
    }
    l.op_n("constructors / project / comparisons", n);
}

pub fn run(ctx: &Ctx) -> Report {
    let mut rep = Report::new("C14");
    rep.rule = "cases = zoned date-times obtained from every constructor (from fields + local time type, from timestamp + local time type, from timestamp + zone, from total nanoseconds with type / with zone, by projection) with offsets over the full i32 range; \
                DateTime::new acceptance grid: 58 years x month 0..=13 x day 0..=32 x 16 time corners x 9 offsets; range-edge instants x offsets; pairs (same instant seen from two generated zones, neighbours by one nanosecond / one second, unrelated) for the comparison claims; values written with second 60 (by DateTime::new and as search entries) against the next-minute spelling, timestamp constructions, projections and one-nanosecond neighbours of the same instant. \
                The field invariant is additionally observed by the facade on every value produced by every other check's workload (c14_values_checked). distinct_nontrivial = distinct constructor inputs."
        .into();
    rep.required_classes = vec![
        "new_accepted",
        "new_refused_not_a_date",
        "new_refused_out_of_range",
        "new_at_range_edge_ok",
        "second_60",
        "projection",
        "pair_same_instant",
        "pair_different_instants",
        "same_instant_seen_from_two_zones_compares_equal",
        "timestamp_constructor_offset_full_i32_range",
        "total_nanoseconds_constructors",
        "nanosecond_count_at_a_power_of_two",
        "search_entry_valid",
        "search_entry_gap",
        "search_on_zone_with_leap_seconds",
        "second_60_vs_next_minute_spelling",
        "second_60_vs_projection",
        "second_60_vs_neighbour_nanosecond",
        "second_60_search_entry_compared",
        "zone_constructors_agree_on_negative_fractional_instants",
        "zone_constructors_agree_on_negative_whole_seconds",
        "search_at_range_end_found",
        "search_at_range_end_rule_governs_the_whole_range",
        "search_at_range_end_refused",
        "search_at_range_end_second_60",
    ];
    if let Err(e) = crate::mon::c03::self_tests() {
        rep.inconclusive.push(format!("model self-test failed: {}", e));
        return rep;
    }
    const OFFS: [i32; 9] = [0, 3600, -3600, 86399, -86399, i32::MAX, i32::MIN + 1, 1, -1];
    // wl 1: acceptance grid of DateTime::new
    run_enum(ctx, &mut rep, 1, (YEARS.len() * OFFS.len()) as u64, |l, _rng, i| {
        let y = YEARS[i as usize / OFFS.len()];
        let off = OFFS[i as usize % OFFS.len()];
        let mut n = 0;
        for mo in 0..=13u8 {
            for d in 0..=32u8 {
                for (h, mi, s, ns) in CORNERS {
                    check_new(l, y, mo, d, h, mi, s, ns, off);
                    n += 1;
                }
            }
        }
        l.op_n("DateTime::new", n);
        l.distinct_enumerated += n;
        if i == 100 {
            l.sample(|| {
                Json::obj()
                    .set("call", "DateTime::new(2024, 2, 29, 23, 59, 60, 7, offset 3600)")
                    .set("observed", format!("{:?}", facade::dt_new(2024, 2, 29, 23, 59, 60, 7, LocalTimeType::with_ut_offset(3600).unwrap()).map(|d| facade::fmt_dt(&d))))
            });
        }
    });
    // wl 2: the range edge: first / last representable seconds seen through offsets of both signs
    run_cases(ctx, &mut rep, 2, ctx.n(2000, 100_000), |l, rng, _| {
        let per = 50;
        for _ in 0..per {
            let off = rand_offset(rng, true);
            let edge = if rng.chance(1, 2) { cal::min_unix() } else { cal::max_unix() };
            // fields such that fields - off lands within a few seconds of the edge
            let target = edge as i128 + rng.range(-3, 3) as i128 + off as i128;
            if target < cal::min_unix() as i128 || target > cal::max_unix() as i128 {
                continue;
            }
            let c = cal::civil_from_unix(target as i64);
            check_new(l, c.year as i32, c.month, c.day, c.hour, c.minute, c.second, rng.below(1_000_000_000) as u32, off);
            l.distinct_hash(Fnv::new().i(target as i64).i(off as i64).get());
        }
        l.op_n("DateTime::new", per);
    });
    // wl 3: timestamp constructors with offsets over the full i32 range, total nanoseconds
    run_cases(ctx, &mut rep, 3, ctx.n(4000, 200_000), |l, rng, _| {
        let per = ctx.inner(100);
        let mut n = 0;
        for _ in 0..per {
            let off = if rng.chance(1, 2) { (rng.next() as i32).max(i32::MIN + 1) } else { rand_offset(rng, true) };
            let ltt = LocalTimeType::with_ut_offset(off).unwrap();
            let u = match rng.below(3) {
                0 => rng.range(cal::min_unix(), cal::max_unix()),
                1 => rng.pick(&[cal::min_unix(), cal::max_unix(), i64::MIN, i64::MAX, 0]).saturating_add(rng.range(-3, 3) * (rng.below(2) as i64)),
                _ => rng.i64_log(),
            };
            let mut ns = rng.below(1_000_000_000) as u32;
            let mut u = u;
            if rng.chance(1, 5) {
                // the instant as a nanosecond count sits on a power of two (+-1): where a narrower intermediate of the
                // recombination unix_time * 1e9 + nanoseconds overflows although the product alone still fits
                let k = rng.range(61, 66) as u32;
                let t = (if rng.chance(1, 2) { 1i128 } else { -1i128 } << k) + rng.range(-2, 2) as i128 + if rng.chance(1, 3) { rng.range(-999_999_999, 999_999_999) as i128 } else { 0 };
                let (q, r) = (t.div_euclid(1_000_000_000), t.rem_euclid(1_000_000_000));
                u = q as i64;
                ns = r as u32;
                l.class("nanosecond_count_at_a_power_of_two");
            }
            let sh = u as i128 + off as i128;
            let ok = sh >= cal::min_unix() as i128 && sh <= cal::max_unix() as i128;
            let r = facade::dt_from_timespec_and_local(u, ns, ltt);
            if let Ok(d) = &r {
                let want = u as i128 * 1_000_000_000 + ns as i128;
                if d.total_nanoseconds() != want {
                    l.violation("zoned date-time: total_nanoseconds() is not unix_time * 1e9 + nanoseconds", format!("DateTime::from_timespec_and_local({}, {}, offset {}).total_nanoseconds()", u, ns, off), format!("{}", want), format!("{}", d.total_nanoseconds()));
                }
            }
            n += 1;
            match (&r, ok) {
                (Ok(d), true) => {
                    l.class("timestamp_constructor_offset_full_i32_range");
                    let c = cal::civil_from_unix(sh as i64);
                    if d.year() as i64 != c.year || d.month() != c.month || d.month_day() != c.day || d.hour() != c.hour || d.minute() != c.minute || d.second() != c.second || d.unix_time() != u || d.nanoseconds() != ns {
                        l.violation("zoned date-time: fields are not the UTC calendar of (Unix time + offset)", format!("DateTime::from_timespec_and_local({}, {}, offset {})", u, ns, off), format!("{}", c), facade::fmt_dt(d));
                    }
                }
                (Ok(d), false) => l.violation("zoned date-time: shifted time outside the calendar accepted", format!("DateTime::from_timespec_and_local({}, {}, offset {})", u, ns, off), "Err".into(), facade::fmt_dt(d)),
                (Err(e), true) => l.violation("zoned date-time: representable value refused", format!("DateTime::from_timespec_and_local({}, {}, offset {})", u, ns, off), "Ok".into(), format!("Err({:?})", e)),
                (Err(_), false) => {}
            }
            // total nanoseconds flavour gives the same value
            let total = u as i128 * 1_000_000_000 + ns as i128;
            let r2 = facade::dt_from_total_ns_and_local(total, ltt);
            n += 1;
            match (&r, &r2) {
                (Ok(a), Ok(b)) => {
                    l.class("total_nanoseconds_constructors");
                    if !crate::mon::c05::same_dt(a, b) {
                        l.violation("zoned date-time: from_total_nanoseconds_and_local differs from from_timespec_and_local", format!("total {} offset {}", total, off), facade::fmt_dt(a), facade::fmt_dt(b));
                    }
                    if b.total_nanoseconds() != total {
                        l.violation("zoned date-time: total_nanoseconds() is not the instant", format!("total {} offset {}", total, off), format!("{}", total), format!("{}", b.total_nanoseconds()));
                    }
                }
                (Err(_), Err(_)) => {}
                (a, b) => l.violation(
                    "zoned date-time: the two timestamp constructors accept differently",
                    format!("total {} offset {}", total, off),
                    format!("{:?}", a.as_ref().map(facade::fmt_dt)),
                    format!("{:?}", b.as_ref().map(facade::fmt_dt)),
                ),
            }
            l.distinct_hash(Fnv::new().i(u).i(off as i64).i(ns as i64).get());
        }
        l.op_n("timestamp constructors", n);
    });
    // wl 4: zones, projection, comparison claims
    run_cases(ctx, &mut rep, 4, ctx.n(40_000, 800_000), |l, rng, _| zone_workload(l, rng, ctx));
    // wl 5: every entry returned by the local-time search (valid and gap entries, allocating and buffer-based),
    // on zones of every shape incl. leap seconds: the facade applies the field invariant to each of them
    let cfg = ZoneCfg::search();
    run_cases(ctx, &mut rep, 5, ctx.n(40_000, 800_000), |l, rng, _| {
        let z = gen_zone(rng, &cfg);
        let b = match build(&z) {
            Ok(b) => b,
            Err(_) => return,
        };
        let tz = b.tz.as_ref();
        let mut locals = crate::gen::zone::probe_locals(&z, rng, 6, 4);
        locals.truncate(ctx.inner(40) as usize);
        let mut n = 0;
        for (i, &c) in locals.iter().enumerate() {
            let q = crate::mon::c05::Search::from_civil_seconds(c, (i as u32 * 7919) % 1_000_000_000, i % 7 == 3);
            if let Ok(list) = facade::find(q.y, q.mo, q.d, q.h, q.mi, q.s, q.ns, tz) {
                for k in list.into_inner() {
                    match k {
                        tz::datetime::FoundDateTimeKind::Normal(d) => {
                            l.class("search_entry_valid");
                            // ordering against the same instant (and a neighbour) built from the timestamp: a
                            // search entry keeps the requested fields, second 60 included
                            if let Ok(same) = facade::dt_from_timespec(d.unix_time(), d.nanoseconds(), tz) {
                                cmp_claims(l, &d, &same);
                                cmp_claims(l, &same, &d);
                                if d.second() == 60 {
                                    l.class("second_60_search_entry_compared");
                                }
                            }
                            // same fields + same type through the field constructor: same instant
                            if let Ok(built) = facade::dt_new(d.year(), d.month(), d.month_day(), d.hour(), d.minute(), d.second(), d.nanoseconds(), *d.local_time_type()) {
                                if built.unix_time() != d.unix_time() {
                                    l.violation(
                                        "zoned date-time: a search result and DateTime::new of the same fields and type denote different instants",
                                        format!("DateTime::find({}) on {}", q.describe(), z.describe()),
                                        facade::fmt_dt(&built),
                                        facade::fmt_dt(&d),
                                    );
                                }
                            }
                        }
                        tz::datetime::FoundDateTimeKind::Skipped { .. } => l.class("search_entry_gap"),
                    }
                }
            }
            let mut buf = [None; 3];
            let _ = facade::find_n(&mut buf, q.y, q.mo, q.d, q.h, q.mi, q.s, q.ns, tz);
            n += 2;
        }
        if !z.leaps.is_empty() {
            l.class("search_on_zone_with_leap_seconds");
        }
        l.op_n("DateTime::find / find_n entries", n);
        l.distinct_hash(Fnv::new().b(z.describe().as_bytes()).get());
    });
    // wl 7: the search at the two ends of the supported range. Zone: one transition at 0 from type A to type B, with
    // and without the fixed rule B. A local time within a few seconds of (range end + offset) either denotes an
    // instant inside the range - then the search returns exactly that instant, and DateTime::new of the same
    // fields and type agrees - or it does not, and the search fails as DateTime::new does. Second 60 included.
    run_cases(ctx, &mut rep, 7, ctx.n(3000, 100_000), |l, rng, _| {
        use tz::timezone::{TimeZone, Transition, TransitionRule};
        let mut n = 0;
        for _ in 0..ctx.inner(20) {
            let pick_off = |rng: &mut Rng| match rng.below(4) {
                0 => *rng.pick(&[1, -1, 3600, -3600, 33539, -18000, 86399, -86399]),
                1 => (rng.next() as i32).max(i32::MIN + 1),
                _ => rng.range(-90_000, 90_000) as i32,
            };
            let (a, b) = (pick_off(rng), pick_off(rng));
            let ta = LocalTimeType::new(a, false, Some(b"AAA")).unwrap();
            let tb = LocalTimeType::new(b, true, Some(b"BBB")).unwrap();
            // shape 0: transition at 0; shape 1: no table, the fixed rule alone; shape 2: the last transition lies below
            // the supported range, so that the rule governs all of it (type B is under test at both ends then)
            let shape = rng.below(3);
            let with_rule = shape != 0 || rng.chance(1, 2);
            let built = match shape {
                0 => TimeZone::new(vec![Transition::new(0, 1)], vec![ta, tb], vec![], if with_rule { Some(TransitionRule::Fixed(tb)) } else { None }),
                1 => TimeZone::new(vec![], vec![tb], vec![], Some(TransitionRule::Fixed(tb))),
                _ => TimeZone::new(vec![Transition::new(cal::min_unix() - rng.range(1, 1_000_000), 1)], vec![ta, tb], vec![], Some(TransitionRule::Fixed(tb))),
            };
            let zone = match built {
                Ok(z) => z,
                Err(_) => continue,
            };
            let low = rng.chance(1, 2);
            if !low && !with_rule {
                continue; // after the last transition of a rule-less zone there is no type: nothing to search
            }
            let (edge, off, ltt) = if low && shape == 0 {
                (cal::min_unix(), a, ta)
            } else if low {
                (cal::min_unix(), b, tb)
            } else {
                (cal::max_unix(), b, tb)
            };
            if shape != 0 {
                l.class("search_at_range_end_rule_governs_the_whole_range");
            }
            let naive = edge as i128 + off as i128 + rng.range(-3, 3) as i128;
            if naive < cal::min_unix() as i128 || naive > cal::max_unix() as i128 + 1 {
                continue; // the fields themselves are not a date of the calendar range
            }
            let (c, sec60) = if naive == cal::max_unix() as i128 + 1 || (rng.chance(1, 4) && (naive - 1).rem_euclid(60) == 59 && naive - 1 >= cal::min_unix() as i128) {
                (cal::civil_from_unix((naive - 1) as i64), true)
            } else {
                (cal::civil_from_unix(naive as i64), false)
            };
            let sec = if sec60 { 60 } else { c.second };
            let ns = rng.below(1_000_000_000) as u32;
            let want = facade::dt_new(c.year as i32, c.month, c.day, c.hour, c.minute, sec, ns, ltt);
            let got = facade::find(c.year as i32, c.month, c.day, c.hour, c.minute, sec, ns, zone.as_ref());
            n += 2;
            let input = || {
                format!(
                    "DateTime::find({}-{:02}-{:02}T{:02}:{:02}:{:02}) on zone shape {} [transition -> BBB({}s)], first type AAA({}s), rule {}",
                    c.year,
                    c.month,
                    c.day,
                    c.hour,
                    c.minute,
                    sec,
                    shape,
                    b,
                    a,
                    if with_rule { "Fixed(BBB)" } else { "none" }
                )
            };
            // the other type's reading is far away from the range end unless the offsets are close: only judge the
            // entry of the type under test, and every returned entry's range
            match (&want, &got) {
                (Ok(w), Ok(list)) => {
                    let entries = list.clone().into_inner();
                    let hit = entries.iter().any(|k| matches!(k, tz::datetime::FoundDateTimeKind::Normal(d) if d.unix_time() == w.unix_time() && d.local_time_type() == w.local_time_type()));
                    let expected_here = shape != 0 || if low { w.unix_time() < 0 } else { w.unix_time() >= 0 };
                    if expected_here && !hit {
                        l.violation("zoned date-time: a local time at the end of the supported range is not found although DateTime::new accepts it", input(), facade::fmt_dt(w), format!("{} entries", entries.len()));
                    }
                    l.class("search_at_range_end_found");
                    if sec60 {
                        l.class("search_at_range_end_second_60");
                    }
                }
                (Err(_), Ok(list)) => {
                    for k in list.clone().into_inner() {
                        if let tz::datetime::FoundDateTimeKind::Normal(d) = k {
                            if d.local_time_type() == &ltt {
                                l.violation("zoned date-time: the search returns a value DateTime::new refuses (instant outside the supported range)", input(), "Err(OutOfRange)".into(), facade::fmt_dt(&d));
                            }
                        }
                    }
                }
                (Ok(w), Err(e)) => {
                    // refused although the value exists: allowed only when the *other* type's reading leaves the range
                    let other = match shape {
                        0 => {
                            if low {
                                b
                            } else {
                                a
                            }
                        }
                        1 => b,
                        _ => a,
                    };
                    let u_other = naive - other as i128 - if sec60 { 0 } else { 0 };
                    let other_in_range = u_other >= cal::min_unix() as i128 && u_other <= cal::max_unix() as i128;
                    if other_in_range {
                        l.violation("zoned date-time: the search refuses a local time whose every reading is inside the supported range", input(), facade::fmt_dt(w), format!("Err({:?})", e));
                    }
                }
                (Err(_), Err(_)) => l.class("search_at_range_end_refused"),
            }
            l.distinct_hash(Fnv::new().i(naive as i64).i(a as i64).i(b as i64).get());
        }
        l.op_n("DateTime::find at the range ends", n);
    });
    // wl 6: values written with second 60 against every other spelling of the same instant and its neighbours
    run_cases(ctx, &mut rep, 6, ctx.n(4000, 200_000), |l, rng, _| {
        let per = ctx.inner(40);
        let mut n = 0;
        for _ in 0..per {
            let off = rand_offset(rng, false);
            let ltt = LocalTimeType::with_ut_offset(off).unwrap();
            // a minute boundary, spelled hh:mm:60 and (next minute):00
            let m = rng.range(-70_000_000, 140_000_000) * 60 + if rng.chance(1, 3) { 0 } else { 86400 - 60 - rng.range(-3, 3) * 60 };
            let m = m - m.rem_euclid(60);
            let c = cal::civil_from_unix(m + off as i64);
            let ns = match rng.below(4) {
                0 => 0,
                1 => 999_999_999,
                _ => rng.below(1_000_000_000) as u32,
            };
            // m + off is the start of a local minute only when off is a multiple of 60: use the local minute start
            let local_minute = (m + off as i64) - (m + off as i64).rem_euclid(60);
            let c = if (m + off as i64).rem_euclid(60) == 0 { c } else { cal::civil_from_unix(local_minute) };
            let leap = match facade::dt_new(c.year as i32, c.month, c.day, c.hour, c.minute, 60, ns, ltt) {
                Ok(d) => d,
                Err(_) => continue,
            };
            n += 1;
            let u = leap.unix_time();
            if u != local_minute + 60 - off as i64 {
                l.violation(
                    "zoned date-time: second 60 is not the first second of the next minute",
                    format!("DateTime::new({}-{}-{} {}:{}:60 offset {})", c.year, c.month, c.day, c.hour, c.minute, off),
                    format!("unix_time {}", local_minute + 60 - off as i64),
                    facade::fmt_dt(&leap),
                );
            }
            let nx = cal::civil_from_unix(local_minute + 60);
            if let Ok(plain) = facade::dt_new(nx.year as i32, nx.month, nx.day, nx.hour, nx.minute, 0, ns, ltt) {
                l.class("second_60_vs_next_minute_spelling");
                cmp_claims(l, &leap, &plain);
                cmp_claims(l, &plain, &leap);
                n += 2;
            }
            // the same instant from the timestamp, in another offset
            let other = LocalTimeType::with_ut_offset(rand_offset(rng, false)).unwrap();
            if let Ok(p) = facade::dt_from_timespec_and_local(u, ns, other) {
                cmp_claims(l, &leap, &p);
                cmp_claims(l, &p, &leap);
                n += 2;
            }
            if let Ok(p) = facade::project(&leap, tz::TimeZoneRef::utc()) {
                l.class("second_60_vs_projection");
                cmp_claims(l, &leap, &p);
                cmp_claims(l, &p, &leap);
                n += 2;
            }
            // neighbours by one nanosecond / one second, not written with second 60
            let (u2, ns2) = match rng.below(4) {
                0 if ns > 0 => (u, ns - 1),
                1 if ns < 999_999_999 => (u, ns + 1),
                2 => (u - 1, ns),
                _ => (u + rng.range(-1, 1), rng.below(1_000_000_000) as u32),
            };
            if let Ok(b) = facade::dt_from_timespec_and_local(u2, ns2, other) {
                l.class("second_60_vs_neighbour_nanosecond");
                cmp_claims(l, &leap, &b);
                cmp_claims(l, &b, &leap);
                n += 2;
            }
            // two values both written with second 60
            if let Ok(leap2) = facade::dt_new(c.year as i32, c.month, c.day, c.hour, c.minute, 60, ns2, ltt) {
                cmp_claims(l, &leap, &leap2);
                n += 1;
            }
            l.distinct_hash(Fnv::new().i(u).i(ns as i64).i(off as i64).get());
        }
        l.op_n("second-60 comparisons", n);
    });
    rep
}
