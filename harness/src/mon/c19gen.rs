//! C19 case generator: writes zones and queries drawn from the same generators as C03-C06 (all zone
//! shapes, tie rules, IANA rules, leap tables) as plain text. The `featcheck` binaries - which link
//! tz-rs built with no features / alloc / std - replay every case through the allocation-free API and
//! their result digests are compared.

use crate::core::{run_cases, Ctx, Report};
use crate::gen::rule::{gen_interleaving, iana_alt_rules};
use crate::gen::zone::{gen_zone, probe_instants, probe_locals, rule_only, ZoneCfg};
use crate::model::cal;
use crate::model::rule::{Day, TypeSpec};
use crate::model::zone::{RuleSpec, ZoneSpec};
use crate::util::rng::Rng;
use std::fmt::Write as _;
use std::sync::Mutex;

fn day(d: &Day) -> String {
    match *d {
        Day::J(n) => format!("0 {} 0 0", n),
        Day::N(n) => format!("1 {} 0 0", n),
        Day::M(m, w, wd) => format!("2 {} {} {}", m, w, wd),
    }
}

fn ty(t: &TypeSpec) -> String {
    format!("{} {} {}", t.off, t.dst as u8, t.desig.as_deref().unwrap_or("-"))
}

pub fn render(z: &ZoneSpec, instants: &[i64], locals: &[i64]) -> String {
    let mut s = String::from("Z\n");
    for t in &z.types {
        let _ = writeln!(s, "T {}", ty(t));
    }
    for &(t, i) in &z.transitions {
        let _ = writeln!(s, "R {} {}", t, i);
    }
    for &(l, c) in &z.leaps.0 {
        let _ = writeln!(s, "L {} {}", l, c);
    }
    match &z.rule {
        None => {}
        Some(RuleSpec::Fixed(t)) => {
            let _ = writeln!(s, "F {}", ty(t));
        }
        Some(RuleSpec::Alt(a)) => {
            let _ = writeln!(s, "A {} {} {} {} {} {}", ty(&a.std), ty(&a.dst), day(&a.start), a.start_time, day(&a.end), a.end_time);
        }
    }
    for &u in instants {
        let _ = writeln!(s, "Q {}", u);
    }
    for (k, &c) in locals.iter().enumerate() {
        if c > cal::min_unix() + (1 << 33) && c < cal::max_unix() - (1 << 33) {
            let f = cal::civil_from_unix(c);
            let sec = if k % 11 == 5 && f.second == 0 { 60 } else { f.second };
            let f2 = if sec == 60 { cal::civil_from_unix(c - 60) } else { f };
            let _ = writeln!(s, "C {} {} {} {} {} {} {}", f2.year, f2.month, f2.day, f2.hour, f2.minute, sec, (c as u64 % 1_000_000_000) as u32);
        }
    }
    s.push_str("E\n");
    s
}

pub fn run(ctx: &Ctx) -> Report {
    let mut rep = Report::new("C19");
    rep.rule = "case generator for the feature-matrix layer".into();
    let out = match ctx.opts.get("out") {
        Some(o) => o.clone(),
        None => {
            rep.inconclusive.push("no output file given (--opt out=PATH)".into());
            return rep;
        }
    };
    let parts: Mutex<Vec<(u64, String)>> = Mutex::new(vec![]);
    let iana = iana_alt_rules();
    let n = ctx.n(3000, 60_000);
    run_cases(ctx, &mut rep, 1, n, |l, rng: &mut Rng, i| {
        let z = match i % 4 {
            0 => rule_only(&iana[(i / 4) as usize % iana.len()]),
            1 => rule_only(&gen_interleaving(rng).0),
            2 => gen_zone(rng, &ZoneCfg::search()),
            _ => {
                let mut c = ZoneCfg::lookup();
                c.max_transitions = 60;
                gen_zone(rng, &c)
            }
        };
        let mut instants = probe_instants(&z, rng, 6, 4);
        // century and 400-year boundaries (rule evaluation looks at neighbouring years there)
        for y in [1800i64, 1900, 2000, 2100, 2200, 2400] {
            instants.push(cal::unix_from_civil(y, 6, 1, 12, 0, 0));
            instants.push(cal::unix_from_civil(y, 1, 1, 0, 0, 0));
        }
        instants.truncate(60);
        let mut locals = probe_locals(&z, rng, 4, 3);
        for y in [1900i64, 2100] {
            locals.push(cal::unix_from_civil(y, 6, 1, 13, 0, 0));
        }
        if locals.len() > 24 {
            let step = locals.len() / 24 + 1;
            locals = locals.into_iter().step_by(step).collect();
        }
        let mut text = render(&z, &instants, &locals);
        // malformed variants of the same zone (the constructors must refuse the same tuples with the same error in every
        // build): arbitrary edits, and the last transition's type against the rule in each single respect
        if i % 4 >= 2 {
            let few = &instants[..instants.len().min(3)];
            let mut m = z.clone();
            for _ in 0..1 + rng.below(3) {
                crate::mon::c13::mutate(&mut m, rng);
            }
            text.push_str(&render(&m, few, &[]));
            if let (Some(&(_, last)), true) = (z.transitions.last(), z.rule.is_some()) {
                if last < z.types.len() {
                    for k in 0..3 {
                        let mut v = z.clone();
                        match k {
                            0 => v.types[last].dst = !v.types[last].dst,
                            1 => v.types[last].off = v.types[last].off.saturating_add(1),
                            _ => v.types[last].desig = Some("QQQ".into()),
                        }
                        text.push_str(&render(&v, few, &[]));
                    }
                    l.class("variants_last_type_against_rule");
                }
            }
        }
        l.op_n("cases written", 1);
        l.distinct_enumerated += 1;
        parts.lock().unwrap().push((i, text));
    });
    let mut v = parts.into_inner().unwrap();
    v.sort_by_key(|p| p.0);
    let all: String = v.into_iter().map(|p| p.1).collect();
    if let Err(e) = std::fs::write(&out, all) {
        rep.inconclusive.push(format!("cannot write {}: {}", out, e));
    }
    rep
}
