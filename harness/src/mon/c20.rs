//! C20: TZ value resolution follows tzset(3): file first, directory order, colon prefix.
//!
//! The injectable reader is a plain `fn`, so the virtual file system and the log of requested paths
//! live in a thread-local of the harness. Refuting observations: the sequence of paths passed to the
//! reader differing from M-resolve's; the result class (zone from which file / zone from the
//! description / I/O error / decoding error / description error / empty) differing.

use crate::core::{run_enum, Ctx, Local, Report};
use crate::facade::{top_err, E};
use crate::model::resolve::{resolve, Entry, Outcome};
use crate::model::zone::{RuleSpec, ZoneSpec};
use crate::util::json::Json;
use std::cell::RefCell;
use std::collections::HashMap;
use tz::TimeZoneSettings;

thread_local! {
    static VFS: RefCell<HashMap<String, Entry>> = RefCell::new(HashMap::new());
    static LOG: RefCell<Vec<String>> = const { RefCell::new(Vec::new()) };
}

pub fn valid_file(k: i32) -> Vec<u8> {
    // minimal v2 file: one type "FIL" with UTC offset k (identifies the file), empty footer
    let mut f = vec![];
    for _ in 0..2 {
        f.extend(b"TZif2");
        f.extend([0u8; 15]);
        for c in [0u32, 0, 0, 0, 1, 4] {
            f.extend(c.to_be_bytes());
        }
        f.extend(k.to_be_bytes());
        f.extend([0, 0]);
        f.extend(b"FIL\0");
    }
    f.extend(b"\n\n");
    f
}

pub const INVALID_KINDS: u64 = 8;

/// files that can be read but do not decode: structurally well-formed version-2 files that do not describe a valid
/// zone (kinds 0-2), a valid file announcing version 4 / version 1 (3, 4), a wrong magic number (5), a valid file
/// cut in the middle of its second block (6), a valid file followed by one more octet after the footer (7)
pub fn invalid_file(kind: u8) -> Vec<u8> {
    if kind >= 3 {
        let mut f = valid_file(7200);
        match kind {
            3 => {
                f[4] = b'4';
            }
            4 => {
                f[4] = b'1';
            }
            5 => {
                f[3] = b'g';
            }
            6 => {
                let n = f.len();
                f.truncate(n - 9);
            }
            _ => f.push(b'x'),
        }
        return f;
    }
    let block = |wide: bool| -> Vec<u8> {
        let mut f = vec![];
        f.extend(b"TZif2");
        f.extend([0u8; 15]);
        let timecnt = if kind == 0 { 0u32 } else { 1 };
        for c in [0u32, 0, 0, timecnt, 1, 4] {
            f.extend(c.to_be_bytes());
        }
        if timecnt == 1 {
            if wide {
                f.extend(1000i64.to_be_bytes());
            } else {
                f.extend(1000i32.to_be_bytes());
            }
            f.push(if kind == 1 { 5 } else { 0 }); // kind 1: transition to type #5 of 1
        }
        f.extend(3600i32.to_be_bytes());
        f.extend([0, 0]);
        f.extend(if kind == 0 { b"AB\0\0" } else { b"FIL\0" }); // kind 0: designation of 2 characters
        f
    };
    let mut f = block(false);
    f.extend(block(true));
    f.extend(if kind == 2 { &b"\nXXX5\n"[..] } else { &b"\n\n"[..] }); // kind 2: footer contradicts the last transition
    f
}

fn reader(path: &str) -> Result<Vec<u8>, Box<dyn std::error::Error + Send + Sync + 'static>> {
    LOG.with(|l| l.borrow_mut().push(path.to_string()));
    match VFS.with(|v| v.borrow().get(path).copied()).unwrap_or(Entry::Absent) {
        Entry::Absent => Err("No such file or directory (virtual)".into()),
        Entry::Valid(k) => Ok(valid_file(k)),
        Entry::Garbage => Ok(b"this is not a TZif file".to_vec()),
        Entry::Empty => Ok(Vec::new()),
        Entry::Invalid(k) => Ok(invalid_file(k)),
    }
}

pub const VALUES: [&str; 56] = [
    "",
    "localtime",
    ":x",
    ":Europe/Paris",
    ":/abs/file",
    "/abs/file",
    "rel",
    "Europe/Paris",
    "UTC0",
    "EST5EDT,M3.2.0,M11.1.0",
    " UTC0 ",
    ":",
    "::x",
    ":localtime",
    "localtime ",
    "Localtime",
    "\u{e9}t\u{e9}",
    "EST5EDT",
    "garbage!",
    "/",
    "//x",
    "a/../b",
    ":UTC0",
    "UTC0\n",
    "\tUTC0",
    "<+03>-3",
    "./rel",
    "rel/",
    ": x",
    " :x",
    "HST10",
    "NZST-12:00:00NZDT-13:00:00,M10.1.0,M3.3.0",
    "EST5EDT,M3.2.0/-1,M11.1.0",
    "EST5EDT,0/0,J365/25",
    ":EST5",
    "/etc/localtime",
    ":/etc/localtime",
    " ",
    "\n",
    "UTC",
    "GMT0BST,M3.5.0/1,M10.5.0",
    "x",
    ":\u{e9}",
    "EST5 EDT",
    // surrounding characters that are white space for Unicode but not for ASCII: never stripped
    "\u{b}UTC0",
    "UTC0\u{b}",
    "\u{a0}UTC0",
    "UTC0\u{85}",
    "\u{2003}EST5EDT,M3.2.0,M11.1.0",
    "<+03>-3\u{3000}",
    "\u{2028}UTC0\u{2029}",
    "\u{feff}UTC0",
    // every ASCII white space character, both sides
    " \t\r\n\u{c}UTC0\u{c}\n\r\t ",
    "\rEST5EDT,M3.2.0,M11.1.0\r\n",
    "\u{c}",
    "UTC0\0",
];

const DIR_LISTS: [&[&str]; 9] = [&[], &["/d1"], &["/d1", "/d2"], &["/d2", "/d1"], &["/d1", "/d2", "/d3"], &["/d3", "/d2", "/d1"], &["/d1", "/d1"], &["rel-dir"], &["/usr/share/zoneinfo", "/share/zoneinfo", "/etc/zoneinfo"]];

/// the paths M-resolve could request for this (value, directory list): all lookup candidates
fn candidates(value: &str, dirs: &[&str]) -> Vec<String> {
    let all_absent = |_: &str| Entry::Absent;
    let mut r = resolve(value, dirs, &all_absent).reads;
    r.dedup();
    let mut seen = vec![];
    for p in r {
        if !seen.contains(&p) {
            seen.push(p);
        }
    }
    seen
}

fn classify(r: &Result<tz::TimeZone, tz::Error>) -> Outcome {
    match r {
        Ok(z) => {
            let zs = ZoneSpec::from_tz(&z.as_ref());
            match &zs.rule {
                None if zs.types.len() == 1 && zs.types[0].desig.as_deref() == Some("FIL") => Outcome::ZoneFromFile(zs.types[0].off),
                Some(r) => Outcome::ZoneFromDescription(r.clone()),
                None => Outcome::Unspec,
            }
        }
        Err(e) => match top_err(e) {
            E::Empty => Outcome::ErrEmpty,
            E::Io => Outcome::ErrIo,
            E::InvalidMagicNumber | E::FileEof | E::InvalidHeader | E::UnsupportedTzFileVersion | E::InvalidFooter | E::FileUtf8 | E::FileInvalidData | E::InvalidDstIndicator | E::InvalidTimeZoneDesignationCharIndex | E::InvalidStdWallUtLocal | E::RemainingDataV1 => Outcome::ErrDecode,
            _ => Outcome::ErrDescription,
        },
    }
}

fn check_config(l: &mut Local, value: &str, dirs: &[&str], assignment: &[(String, Entry)]) {
    VFS.with(|v| {
        let mut v = v.borrow_mut();
        v.clear();
        for (p, e) in assignment {
            v.insert(p.clone(), *e);
        }
    });
    LOG.with(|l| l.borrow_mut().clear());
    let settings = TimeZoneSettings::new(dirs, reader);
    let got = settings.parse_posix_tz(value);
    let reads = LOG.with(|l| l.borrow().clone());
    crate::facade::ev("TimeZoneSettings::parse_posix_tz", [value.len() as i64, dirs.len() as i64, reads.len() as i64, 0], got.is_ok(), 0);
    let fs = |p: &str| assignment.iter().find(|(q, _)| q == p).map(|(_, e)| *e).unwrap_or(Entry::Absent);
    let exp = resolve(value, dirs, &fs);
    let input = || format!("TZ value {:?}, directories {:?}, files {:?}", value, dirs, assignment);
    if reads != exp.reads {
        l.violation("TZ resolution: the paths opened differ from tzset(3)'s order", input(), format!("{:?}", exp.reads), format!("{:?}", reads));
    }
    let obs = classify(&got);
    // the entry that was decoded (the last path read), when it is a structurally well-formed but invalid file:
    // the result must be exactly the decoder's own error for that content - no fallback to the description
    let decoded_invalid = exp.reads.last().map(|p| fs(p)).and_then(|e| if let Entry::Invalid(k) = e { Some(k) } else { None });
    if let (Some(k), Outcome::ErrDecode) = (decoded_invalid, &exp.outcome) {
        let want = match tz::TimeZone::from_tz_data(&invalid_file(k)) {
            Err(e) => crate::facade::tz_err(&e),
            Ok(_) => {
                l.harness_errors.push(format!("invalid_file({}) is accepted by the decoder", k));
                return;
            }
        };
        match &got {
            Err(e) if top_err(e) == want => l.class("invalid_zone_in_a_well_formed_file_no_fallback"),
            other => l.violation("TZ resolution: a file that was read but does not describe a valid zone must give the decoder's error, with no fallback", input(), format!("Err({:?})", want), format!("{:?}", other.as_ref().map(|_| "Ok(zone)").map_err(|e| top_err(e)))),
        }
    } else if exp.outcome != Outcome::Unspec {
        let same = match (&exp.outcome, &obs) {
            (Outcome::ZoneFromDescription(a), Outcome::ZoneFromDescription(b)) => a == b,
            (a, b) => a == b,
        };
        if !same {
            l.violation("TZ resolution: wrong result class", input(), format!("{:?}", exp.outcome), format!("{:?} ({:?})", obs, got.as_ref().map(|_| "Ok").map_err(|e| top_err(e))));
        }
        // a zone built from a description consists of the rule's types only
        if let (Outcome::ZoneFromDescription(_), Ok(z)) = (&exp.outcome, &got) {
            let zs = ZoneSpec::from_tz(&z.as_ref());
            let want = match zs.rule.as_ref().unwrap() {
                RuleSpec::Fixed(t) => vec![t.clone()],
                RuleSpec::Alt(a) => vec![a.std.clone(), a.dst.clone()],
            };
            if zs.types != want || !zs.transitions.is_empty() || !zs.leaps.is_empty() {
                l.violation("TZ resolution: zone from a description is not the rule-only zone", input(), format!("{:?}", want), zs.describe());
            }
        }
    } else {
        l.unspecified += 1;
    }
    l.class(match &exp.outcome {
        Outcome::ZoneFromFile(_) => "zone_from_file",
        Outcome::ZoneFromDescription(_) => "zone_from_description_(no_file_readable)",
        Outcome::ErrEmpty => "empty_value_refused",
        Outcome::ErrIo => "io_error_(localtime_or_colon_value)",
        Outcome::ErrDecode => "decoding_error_no_fallback",
        Outcome::ErrDescription => "description_error",
        Outcome::Unspec => "unspecified_description",
    });
    if exp.reads.len() >= 2 {
        l.class("several_directories_tried");
        if matches!(exp.outcome, Outcome::ZoneFromFile(_) | Outcome::ErrDecode) && exp.reads.len() < candidates(value, dirs).len() {
            l.class("first_readable_wins_(later_directories_not_read)");
        }
    }
    if value.starts_with(':') {
        l.class("colon_value");
    }
    if value == "localtime" {
        l.class("localtime_value");
        // the shorthand `parse_local()` is the same resolution: same single path, same result
        LOG.with(|l| l.borrow_mut().clear());
        let got_local = settings.parse_local();
        let reads_local = LOG.with(|l| l.borrow().clone());
        let obs_local = classify(&got_local);
        if reads_local != exp.reads || (exp.outcome != Outcome::Unspec && obs_local != obs) {
            l.violation("TZ resolution: parse_local() differs from resolving the value \"localtime\"", input(), format!("reads {:?}, {:?}", exp.reads, obs), format!("reads {:?}, {:?}", reads_local, obs_local));
        } else {
            l.class("parse_local_shorthand");
        }
    }
    if value.starts_with('/') {
        l.class("absolute_path_value");
    }
    if value != value.trim_matches(|c: char| c.is_ascii_whitespace()) && matches!(exp.outcome, Outcome::ZoneFromDescription(_)) {
        l.class("whitespace_stripped_before_description");
    }
    if value != value.trim() && value == value.trim_matches(|c: char| c.is_ascii_whitespace()) && matches!(exp.outcome, Outcome::ErrDescription) {
        l.class("unicode_only_whitespace_not_stripped");
    }
    if exp.reads.is_empty() {
        l.class("no_read_at_all");
    }
}

pub fn run(ctx: &Ctx) -> Report {
    let mut rep = Report::new("C20");
    rep.rule = "cases = (TZ value, directory list, virtual file system) configurations resolved through TimeZoneSettings::new(dirs, recording reader).parse_posix_tz(value); the real file system is not involved. Enumerated completely: 56 TZ-value shapes (empty, localtime, :x, :/abs, /abs, relative names, names that are also valid descriptions, descriptions with surrounding ASCII whitespace (stripped) and Unicode-only whitespace (never stripped), ':' alone, non-ASCII, ...) \
                x 9 directory lists (0..3 directories, permutations, duplicates, relative) x every assignment of {absent, valid TZif, garbage, readable but empty} to each candidate path. Oracle: M-resolve (tzset(3) order), compared on the exact sequence of reader arguments and on the result class; valid files carry distinct offsets so the zone returned identifies the file used. distinct_nontrivial = configurations (distinct by construction)."
        .into();
    rep.required_classes = vec![
        "zone_from_file",
        "zone_from_description_(no_file_readable)",
        "empty_value_refused",
        "io_error_(localtime_or_colon_value)",
        "decoding_error_no_fallback",
        "description_error",
        "several_directories_tried",
        "first_readable_wins_(later_directories_not_read)",
        "colon_value",
        "localtime_value",
        "absolute_path_value",
        "whitespace_stripped_before_description",
        "unicode_only_whitespace_not_stripped",
        "parse_local_shorthand",
        "invalid_zone_in_a_well_formed_file_no_fallback",
        "no_read_at_all",
    ];
    if let Err(e) = crate::mon::c03::self_tests() {
        rep.inconclusive.push(format!("model self-test failed: {}", e));
        return rep;
    }
    let total = (VALUES.len() * DIR_LISTS.len()) as u64;
    run_enum(ctx, &mut rep, 1, total, |l, _rng, i| {
        let value = VALUES[i as usize / DIR_LISTS.len()];
        let dirs = DIR_LISTS[i as usize % DIR_LISTS.len()];
        let cands = candidates(value, dirs);
        let k = cands.len();
        let mut n = 0u64;
        // all assignments of {absent, valid, garbage, empty, invalid zone} to the candidate paths
        let combos = 5u64.pow(k as u32);
        for c in 0..combos {
            let mut c2 = c;
            let assignment: Vec<(String, Entry)> = cands
                .iter()
                .enumerate()
                .map(|(j, p)| {
                    let e = match c2 % 5 {
                        0 => Entry::Absent,
                        1 => Entry::Valid(60 * (j as i32 + 1)),
                        2 => Entry::Garbage,
                        3 => Entry::Empty,
                        _ => Entry::Invalid(((c / 5 + j as u64 + i) % INVALID_KINDS) as u8),
                    };
                    c2 /= 5;
                    (p.clone(), e)
                })
                .collect();
            check_config(l, value, dirs, &assignment);
            n += 1;
        }
        // decoys: files that must never be opened (other directories, the value itself as a relative path, /etc/localtime)
        let decoys: Vec<(String, Entry)> = vec![("/etc/localtime".to_string(), Entry::Valid(7)), (value.to_string(), Entry::Valid(8)), (format!("/usr/share/zoneinfo/{}", value), Entry::Valid(9)), (format!("./{}", value), Entry::Valid(10))]
            .into_iter()
            .filter(|(p, _)| !cands.contains(p))
            .collect();
        check_config(l, value, dirs, &decoys);
        n += 1;
        l.op_n("TimeZoneSettings::parse_posix_tz", n);
        l.distinct_enumerated += n;
        if i % 53 == 0 {
            l.sample(|| Json::obj().set("value", value).set("directories", format!("{:?}", dirs)).set("candidate_paths", format!("{:?}", cands)).set("assignments", combos));
        }
    });
    rep.exhaustive = true;
    rep.notes.push("exhaustive over the listed value shapes x directory lists x file-system assignments; TZ values outside the 56 shapes are covered by C09 (description grammar) only".into());
    rep
}
