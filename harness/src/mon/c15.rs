//! C15 (runtime half): any number of threads may parse, look up and search concurrently on shared
//! zones and each call returns exactly what it returns when run alone.
//!
//! Operation sequences are generated from the seed; each sequence is first executed alone (reference
//! digest), then all sequences are executed concurrently by 2/4/8/16 threads on *shared* zones
//! (`Arc<TimeZone>`, a leaked `&'static` zone, the const UTC zone) with a start barrier and random
//! yields between calls; every concurrent digest must equal its reference digest. The same binary is
//! run under ThreadSanitizer / Miri (data races, UB) and under the environment / syscall monitors
//! (driver layers); the window markers below delimit the region in which no environment variable may
//! be read and no file opened.

use crate::core::{Ctx, Fnv, Local, Report};
use crate::facade;
use crate::gen::rule::IANA_FOOTERS;
use crate::gen::zone::{gen_zone, ZoneCfg};
use crate::model::cal;
use crate::mon::c08::load_corpus;
use crate::util::json::Json;
use crate::util::rng::Rng;
use std::sync::{Arc, Barrier};
use tz::datetime::FoundDateTimeKind;
use tz::{TimeZone, TimeZoneRef, TimeZoneSettings, UtcDateTime};

#[derive(Clone, Debug)]
pub enum Op {
    ParseFile(usize),
    ParseString(usize),
    Lookup(usize, i64),
    FromTimespec(usize, i64, u32),
    Find(usize, i64),
    FindN(usize, i64),
    Format(usize, i64),
    Utc(i64),
    Construct(u64),
    /// `TimeZone::local()`: the default settings, the real file system (/etc/localtime)
    Local,
    /// `TimeZone::from_posix_tz(value)`: the default settings, the real zoneinfo directories
    DefaultPosix(usize),
    /// the clock readers: `UtcDateTime::now`, `DateTime::now`, `TimeZone::find_current_local_time_type`
    Now(usize),
}

pub struct Shared {
    pub zones: Vec<Arc<TimeZone>>,
    pub leaked: &'static TimeZone,
    pub files: Vec<Vec<u8>>,
    pub strings: Vec<String>,
}

fn dig_dt(h: Fnv, d: &tz::DateTime) -> Fnv {
    h.i(d.unix_time())
        .i(d.nanoseconds() as i64)
        .i(d.year() as i64)
        .i((d.month() as i64) << 32 | (d.month_day() as i64) << 24 | (d.hour() as i64) << 16 | (d.minute() as i64) << 8 | d.second() as i64)
        .i(d.local_time_type().ut_offset() as i64)
        .i(d.local_time_type().is_dst() as i64)
        .b(d.local_time_type().time_zone_designation().as_bytes())
}

fn zone_ref<'a>(s: &'a Shared, k: usize) -> TimeZoneRef<'a> {
    let n = s.zones.len();
    match k % (n + 2) {
        i if i < n => TimeZone::as_ref(&s.zones[i]),
        i if i == n => s.leaked.as_ref(),
        _ => TimeZoneRef::utc(),
    }
}

static READER_CALLS: std::sync::atomic::AtomicU64 = std::sync::atomic::AtomicU64::new(0);
static RELATIVE_PATHS: std::sync::atomic::AtomicU64 = std::sync::atomic::AtomicU64::new(0);
static FIRST_RELATIVE: std::sync::Mutex<Option<String>> = std::sync::Mutex::new(None);

fn path_monitoring_reader(path: &str) -> Result<Vec<u8>, Box<dyn std::error::Error + Send + Sync + 'static>> {
    use std::sync::atomic::Ordering::Relaxed;
    READER_CALLS.fetch_add(1, Relaxed);
    if !path.starts_with('/') && RELATIVE_PATHS.fetch_add(1, Relaxed) == 0 {
        if let Ok(mut g) = FIRST_RELATIVE.lock() {
            *g = Some(path.to_string());
        }
    }
    // a virtual file system with files in the second directory only, for every name of even length: the search
    // must pass over the failing first directory whatever ambient state the calling thread carries
    // a third directory serves every name whose length is a multiple of three, with other contents: for lengths
    // that are multiples of six the answer depends on the order in which the listed directories are tried, which
    // must be the order of the list on every thread and in every call
    if let Some(name) = path.strip_prefix("/tzmon-d3/") {
        if name.len() % 3 == 0 && !name.is_empty() {
            return Ok(crate::mon::c20::valid_file(name.len() as i32 * 60 + 1800));
        }
    }
    match path.strip_prefix("/tzmon-d2/") {
        Some(name) if name.len() % 2 == 0 && !name.is_empty() => Ok(crate::mon::c20::valid_file(name.len() as i32 * 60)),
        _ => Err("No such file or directory (virtual)".into()),
    }
}

extern "C" {
    fn __errno_location() -> *mut i32;
}

// ---- hostile readers: what a call returns must not depend on what the reader of *another* call did -------------

const HDIRS: [&str; 3] = ["/tzmon-d1", "/tzmon-d2", "/tzmon-d3"];
const HVALUES: [&str; 8] = ["Zone/A", ":Zone/AB", "abcdef", "CET-1", "EST5EDT,M3.2.0,M11.1.0", "localtime", ":abc", "Alias/xx"];

fn panicking_reader(_path: &str) -> Result<Vec<u8>, Box<dyn std::error::Error + Send + Sync + 'static>> {
    panic!("tzmon: reader of a hostile caller panics")
}

/// a reader that itself resolves a TZ value through other settings (an alias table, a reader that maps names)
fn reentrant_reader(path: &str) -> Result<Vec<u8>, Box<dyn std::error::Error + Send + Sync + 'static>> {
    if path.ends_with("Alias/xx") {
        let inner = TimeZoneSettings::new(&HDIRS, path_monitoring_reader).parse_posix_tz(":Zone/A")?;
        return Ok(crate::mon::c20::valid_file(inner.as_ref().local_time_types()[0].ut_offset() + 7));
    }
    path_monitoring_reader(path)
}

static GATE: (std::sync::Mutex<bool>, std::sync::Condvar) = (std::sync::Mutex::new(false), std::sync::Condvar::new());

/// a reader that returns only after another thread's (unrelated) lookup has completed
fn waiting_reader(path: &str) -> Result<Vec<u8>, Box<dyn std::error::Error + Send + Sync + 'static>> {
    if path.starts_with("/tzmon-d1/") {
        let mut g = GATE.0.lock().unwrap_or_else(|e| e.into_inner());
        while !*g {
            g = GATE.1.wait(g).unwrap_or_else(|e| e.into_inner());
        }
    }
    path_monitoring_reader(path)
}

type Reader = fn(&str) -> Result<Vec<u8>, Box<dyn std::error::Error + Send + Sync + 'static>>;

/// digest of a fixed list of resolutions through fresh settings with `reader`
fn lookups_digest(reader: Reader) -> u64 {
    let mut h = Fnv::new();
    let settings = TimeZoneSettings::new(&HDIRS, reader);
    for v in HVALUES {
        h = match settings.parse_posix_tz(v) {
            Ok(z) => h.i(z.as_ref().local_time_types()[0].ut_offset() as i64).i(z.as_ref().local_time_types().len() as i64),
            Err(e) => h.i(-1).i(matches!(e, tz::Error::Io(_)) as i64),
        };
    }
    h.get()
}

/// Runs `f` on a new thread and waits for it. Returns `None` when the participants are *deadlocked*: the thread
/// (and every helper thread it reports) is asleep and none of them has consumed CPU time over 24 consecutive
/// samples 0.5 s apart. A thread that is merely slow on a loaded machine is runnable, not asleep, so wall-clock
/// time alone never produces this verdict. The stuck threads are left behind (the process ends soon after).
fn run_or_deadlock<T: Send + 'static>(f: impl FnOnce(&std::sync::mpsc::Sender<u64>) -> T + Send + 'static) -> Option<T> {
    let (tid_tx, tid_rx) = std::sync::mpsc::channel::<u64>();
    let (res_tx, res_rx) = std::sync::mpsc::channel::<T>();
    std::thread::spawn(move || {
        let _ = tid_tx.send(crate::util::cpu::gettid());
        let r = f(&tid_tx);
        let _ = res_tx.send(r);
    });
    let mut tids: Vec<u64> = vec![];
    let mut last: Vec<u64> = vec![];
    let mut quiet = 0;
    loop {
        match res_rx.recv_timeout(std::time::Duration::from_millis(500)) {
            Ok(r) => return Some(r),
            Err(std::sync::mpsc::RecvTimeoutError::Disconnected) => return None,
            Err(_) => {}
        }
        while let Ok(t) = tid_rx.try_recv() {
            tids.push(t);
        }
        let states: Vec<(char, u64)> = tids.iter().filter_map(|&t| crate::util::cpu::state_of_tid(t)).collect();
        let cpu: Vec<u64> = states.iter().map(|s| s.1).collect();
        let asleep = !states.is_empty() && states.iter().all(|s| s.0 == 'S');
        if asleep && cpu == last {
            quiet += 1;
        } else {
            quiet = 0;
        }
        last = cpu;
        if quiet >= 24 {
            return None;
        }
    }
}

/// the scenarios; every verdict is about calls whose own settings and readers are well behaved
fn hostile_readers(l: &mut Local) {
    use std::panic::{catch_unwind, AssertUnwindSafe};
    let base = lookups_digest(path_monitoring_reader);
    if !cfg!(miri) {
        // B. a reader that itself resolves a TZ value (through its own settings)
        let expect_b = {
            // what the nested resolution yields when done by hand
            let inner = TimeZoneSettings::new(&HDIRS, path_monitoring_reader).parse_posix_tz(":Zone/A").map(|z| z.as_ref().local_time_types()[0].ut_offset()).unwrap_or(-1);
            inner + 7
        };
        match run_or_deadlock(|_| TimeZoneSettings::new(&HDIRS, reentrant_reader).parse_posix_tz(":Alias/xx").map(|z| z.as_ref().local_time_types()[0].ut_offset()).unwrap_or(-2)) {
            Some(v) if v == expect_b => l.class("reentrant_reader_completed"),
            Some(v) => l.violation("ambient state: a resolution nested in a reader returns something else", "reader resolving ':Zone/A' while ':Alias/xx' is being resolved".into(), format!("offset {}", expect_b), format!("offset {}", v)),
            None => {
                l.violation("ambient state: a reader that itself resolves a TZ value never returns (deadlock: all participating threads asleep, no CPU time consumed for 12 s)", "reader resolving ':Zone/A' while ':Alias/xx' is being resolved".into(), "both resolutions complete".into(), "deadlock".into());
                return; // the stuck thread may hold whatever it waits on: nothing after it can be judged
            }
        }
        l.op_n("nested resolutions", 2);
        // C. thread 1's reader waits until thread 2's unrelated resolution has completed
        *GATE.0.lock().unwrap_or_else(|e| e.into_inner()) = false;
        let r = run_or_deadlock(|tids| {
            let tids2 = tids.clone();
            let t2 = std::thread::spawn(move || {
                let _ = tids2.send(crate::util::cpu::gettid());
                // give thread 1 the time to enter its reader, then resolve something unrelated and open the gate
                std::thread::sleep(std::time::Duration::from_millis(100));
                let d = lookups_digest(path_monitoring_reader);
                *GATE.0.lock().unwrap_or_else(|e| e.into_inner()) = true;
                GATE.1.notify_all();
                d
            });
            let d1 = lookups_digest(waiting_reader);
            (d1, t2.join().unwrap_or(0))
        });
        // open the gate in any case so that a stuck reader does not outlive the scenario needlessly
        *GATE.0.lock().unwrap_or_else(|e| e.into_inner()) = true;
        GATE.1.notify_all();
        match r {
            Some((d1, d2)) if d1 == base && d2 == base => l.class("readers_waiting_for_each_other_completed"),
            Some((d1, d2)) => l.violation("thread safety: results differ when one thread's reader waits for another thread's resolution", "two threads, reader of the first waits for the second".into(), format!("digest {:016x} twice", base), format!("digests {:016x} {:016x}", d1, d2)),
            None => {
                l.violation("thread safety: a resolution blocks while another thread's reader is running (deadlock: all participating threads asleep, no CPU time consumed for 12 s)", "two threads, reader of the first waits for the second thread's unrelated resolution".into(), "both complete".into(), "deadlock".into());
                return;
            }
        }
        l.op_n("resolutions with readers waiting for each other", 2 * HVALUES.len() as u64);
    }
    // A (last: a poisoned lock would spoil the other scenarios). another caller's reader panics (its panic is that caller's business); afterwards every other call must
    //    behave as before, on this thread and on a new one
    let r = catch_unwind(AssertUnwindSafe(|| TimeZoneSettings::new(&HDIRS, panicking_reader).parse_posix_tz("Zone/A").is_ok()));
    let _ = crate::core::take_panic_msg();
    l.class(if r.is_err() { "reader_panic_propagated" } else { "reader_panic_absorbed" });
    let after_here = catch_unwind(AssertUnwindSafe(|| lookups_digest(path_monitoring_reader)));
    let after_there = std::thread::spawn(|| catch_unwind(|| lookups_digest(path_monitoring_reader))).join().unwrap_or(Err(Box::new("join")));
    for (where_, d) in [("the same thread", after_here), ("another thread", after_there)] {
        l.op_n("resolutions after a panicking reader", HVALUES.len() as u64);
        match d {
            Ok(d) if d == base => l.class("unchanged_after_a_panicking_reader"),
            Ok(d) => l.violation("ambient state: results change after an unrelated call whose reader panicked", format!("8 TZ values resolved on {} after a panicking reader elsewhere", where_), format!("digest {:016x}", base), format!("digest {:016x}", d)),
            Err(_) => l.violation("ambient state: calls fail after an unrelated call whose reader panicked", format!("8 TZ values resolved on {} after a panicking reader elsewhere", where_), format!("digest {:016x}", base), format!("panic: {}", crate::core::take_panic_msg())),
        }
    }
}

/// Overwrites the calling thread's `errno` (ambient thread-local state every failing system call writes): no
/// result of tz-rs may depend on it.
fn poison_errno(v: i32) {
    unsafe {
        *__errno_location() = v;
    }
}

/// class of a decoding result: error kind, or counts and presence of a rule
fn parse_class(bytes: &[u8]) -> u64 {
    match TimeZone::from_tz_data(bytes) {
        Ok(z) => Fnv::new().i(z.as_ref().transitions().len() as i64).i(z.as_ref().local_time_types().len() as i64).i(z.as_ref().extra_rule().is_some() as i64).get(),
        Err(e) => facade::tz_err(&e) as u64 + 1000,
    }
}

/// execute one sequence; the digest covers every result
pub fn execute(s: &Shared, ops: &[Op], yield_seed: Option<u64>) -> (u64, u64) {
    let mut h = Fnv::new();
    let mut yr = yield_seed.map(Rng::new);
    let mut n = 0u64;
    for op in ops {
        if let Some(r) = yr.as_mut() {
            match r.below(8) {
                0 => std::thread::yield_now(),
                1 => {
                    for _ in 0..r.below(200) {
                        std::hint::spin_loop();
                    }
                }
                _ => {}
            }
        }
        n += 1;
        // ambient thread state differs between the reference run (errno 0) and the concurrent run (errno drawn
        // from the values a permission / lookup failure leaves behind)
        match yr.as_mut() {
            Some(r) => poison_errno(*r.pick(&[1, 2, 13, 20, 22, 0, 4, 11])),
            None => poison_errno(0),
        }
        match op {
            Op::ParseFile(k) => match TimeZone::from_tz_data(&s.files[*k % s.files.len()]) {
                Ok(z) => {
                    h = h.i(z.as_ref().transitions().len() as i64).i(z.as_ref().local_time_types().len() as i64).i(z.as_ref().extra_rule().is_some() as i64);
                    if let Ok(t) = z.find_local_time_type(1_700_000_000) {
                        h = h.i(t.ut_offset() as i64);
                    }
                }
                Err(e) => h = h.i(facade::tz_err(&e) as i64 + 1000),
            },
            Op::ParseString(k) => {
                // two absolute directories, a reader that has no file: every path handed to it must be absolute,
                // a relative one would be resolved against the process-wide working directory
                // (directory lists with a repeated entry and with two directories that both serve a name included)
                const LISTS: [&[&str]; 4] = [&["/tzmon-d1", "/tzmon-d2"], &["/tzmon-d1", "/tzmon-d2", "/tzmon-d1"], &["/tzmon-d3", "/tzmon-d2", "/tzmon-d3", "/tzmon-d1"], &["/tzmon-d2", "/tzmon-d1", "/tzmon-d3", "/tzmon-d2"]];
                let settings = TimeZoneSettings::new(LISTS[(*k / s.strings.len().max(1)) % 4], path_monitoring_reader);
                match settings.parse_posix_tz(&s.strings[*k % s.strings.len()]) {
                    Ok(z) => {
                        h = h.i(z.as_ref().local_time_types().len() as i64);
                        if let Ok(t) = z.find_local_time_type(1_700_000_000) {
                            h = h.i(t.ut_offset() as i64);
                        }
                    }
                    Err(e) => h = h.i(facade::top_err(&e) as i64 + 2000),
                }
            }
            Op::Lookup(k, t) => match zone_ref(s, *k).find_local_time_type(*t) {
                Ok(l) => h = h.i(l.ut_offset() as i64).b(l.time_zone_designation().as_bytes()),
                Err(e) => h = h.i(facade::tz_err(&e) as i64 + 3000),
            },
            Op::FromTimespec(k, t, ns) => match facade::dt_from_timespec(*t, *ns, zone_ref(s, *k)) {
                Ok(d) => h = dig_dt(h, &d),
                Err(e) => h = h.i(e as i64 + 4000),
            },
            Op::Find(k, c) => {
                let f = cal::civil_from_unix(*c);
                match facade::find(f.year as i32, f.month, f.day, f.hour, f.minute, f.second, 5, zone_ref(s, *k)) {
                    Ok(list) => {
                        for e in list.into_inner() {
                            match e {
                                FoundDateTimeKind::Normal(d) => h = dig_dt(h.i(1), &d),
                                FoundDateTimeKind::Skipped { before_transition, after_transition } => h = dig_dt(dig_dt(h.i(2), &before_transition), &after_transition),
                            }
                        }
                    }
                    Err(e) => h = h.i(e as i64 + 5000),
                }
            }
            Op::FindN(k, c) => {
                let f = cal::civil_from_unix(*c);
                let mut buf = [None; 2];
                match facade::find_n(&mut buf, f.year as i32, f.month, f.day, f.hour, f.minute, f.second, 5, zone_ref(s, *k)) {
                    Ok(r) => {
                        h = h.i(r.count() as i64).i(r.is_exhaustive() as i64);
                        if let Some(d) = r.earliest() {
                            h = dig_dt(h, &d);
                        }
                    }
                    Err(e) => h = h.i(e as i64 + 6000),
                }
            }
            Op::Format(k, t) => {
                if let Ok(d) = facade::dt_from_timespec(*t, 123_456_789, zone_ref(s, *k)) {
                    h = h.b(d.to_string().as_bytes());
                }
            }
            Op::Utc(t) => match UtcDateTime::from_timespec(*t, 1) {
                Ok(d) => h = h.i(d.year() as i64).i(d.year_day() as i64).i(d.week_day() as i64).b(d.to_string().as_bytes()),
                Err(_) => h = h.i(7000),
            },
            Op::Local => match TimeZone::local() {
                Ok(z) => {
                    h = h.i(z.as_ref().transitions().len() as i64).i(z.as_ref().local_time_types().len() as i64);
                    if let Ok(t) = z.find_local_time_type(1_700_000_000) {
                        h = h.i(t.ut_offset() as i64).b(t.time_zone_designation().as_bytes());
                    }
                }
                Err(e) => h = h.i(facade::top_err(&e) as i64 + 9000),
            },
            Op::DefaultPosix(k) => match TimeZone::from_posix_tz(&s.strings[*k % s.strings.len()]) {
                Ok(z) => {
                    h = h.i(z.as_ref().transitions().len() as i64).i(z.as_ref().local_time_types().len() as i64);
                    if let Ok(t) = z.find_local_time_type(1_700_000_000) {
                        h = h.i(t.ut_offset() as i64).b(t.time_zone_designation().as_bytes());
                    }
                }
                Err(e) => h = h.i(facade::top_err(&e) as i64 + 10_000),
            },
            Op::Now(k) => {
                // the value depends on the clock: only its plausibility enters the digest
                let a = UtcDateTime::now().map(|d| d.year() >= 2024).unwrap_or(false);
                let b = tz::DateTime::now(zone_ref(s, *k)).map(|d| d.unix_time() > 1_700_000_000).unwrap_or(false);
                let c = match s.zones[*k % s.zones.len()].find_current_local_time_type() {
                    Ok(_) => 1,
                    Err(tz::TzError::NoAvailableLocalTimeType) => 2,
                    Err(_) => 3,
                };
                let c2 = match s.zones[*k % s.zones.len()].find_local_time_type(1_759_000_000) {
                    Ok(_) => 1,
                    Err(tz::TzError::NoAvailableLocalTimeType) => 2,
                    Err(_) => 3,
                };
                h = h.i(a as i64).i(b as i64 | if tz::DateTime::now(zone_ref(s, *k)).is_ok() { 2 } else { 0 }).i((c == c2) as i64);
            }
            Op::Construct(seed) => {
                let mut r = Rng::new(*seed);
                let mut c = ZoneCfg::search();
                c.max_transitions = 6;
                let z = gen_zone(&mut r, &c);
                match z.to_tz() {
                    Ok(tz) => {
                        h = h.i(tz.as_ref().transitions().len() as i64);
                        if let Ok(t) = tz.find_local_time_type(0) {
                            h = h.i(t.ut_offset() as i64);
                        }
                    }
                    Err(_) => h = h.i(8000),
                }
            }
        }
    }
    (h.get(), n)
}

fn gen_ops(rng: &mut Rng, n: usize, nzones: usize) -> Vec<Op> {
    (0..n)
        .map(|_| {
            let k = rng.below(nzones as u64 + 2) as usize;
            let t = match rng.below(3) {
                0 => rng.range(-2_000_000_000, 4_000_000_000),
                1 => rng.range(0, 2_000_000_000),
                _ => rng.range(-10_000_000_000, 10_000_000_000),
            };
            match rng.below(19) {
                16 => Op::Local,
                17 => Op::DefaultPosix(rng.below(1000) as usize),
                18 => Op::Now(k),
                0 => Op::ParseFile(rng.below(1000) as usize),
                1 => Op::ParseString(rng.below(1000) as usize),
                2 | 3 | 4 | 5 => Op::Lookup(k, t),
                6 | 7 | 8 => Op::FromTimespec(k, t, rng.below(1_000_000_000) as u32),
                9 | 10 => Op::Find(k, t),
                11 => Op::FindN(k, t),
                12 | 13 => Op::Format(k, t),
                14 => Op::Utc(t),
                _ => Op::Construct(rng.next()),
            }
        })
        .collect()
}

extern "C" {
    fn getenv(name: *const u8) -> *const u8;
    fn access(path: *const u8, mode: i32) -> i32;
}

/// markers visible to the environment interposer (getenv log) and to strace (access syscall)
fn mark(begin: bool) {
    if cfg!(miri) {
        return;
    }
    unsafe {
        if begin {
            getenv(b"TZMON_WINDOW_BEGIN\0".as_ptr());
            access(b"/tzmon-window-begin\0".as_ptr(), 0);
        } else {
            getenv(b"TZMON_WINDOW_END\0".as_ptr());
            access(b"/tzmon-window-end\0".as_ptr(), 0);
        }
    }
}

pub fn run(ctx: &Ctx) -> Report {
    let mut rep = Report::new("C15");
    rep.rule = "cases = (operation sequence, thread count, schedule seed): sequences mixing parse (file and TZ string; injected reader and the default settings on the real file system: TimeZone::local, TimeZone::from_posix_tz), the clock readers (now, find_current_local_time_type), construct, lookup, from_timespec, find, find_n, format on shared zones (Arc<TimeZone> of vendored files and generated zones, a leaked &'static zone, the const UTC zone) and private values; each sequence's digest when run by one of N threads (N in 2, 4, 8, 16; start barrier; random yields / spins between calls; the thread's errno overwritten with EPERM / ENOENT / EACCES / ... before every call) must equal its digest when run alone (errno 0). The injected reader serves a virtual file system with files in the second directory only and monitors the paths it is handed. \
                distinct_nontrivial = distinct (sequence, thread count, round) executions whose sequence touches a shared zone."
        .into();
    rep.required_classes = vec!["threads_2", "threads_4", "threads_8", "threads_16", "shared_zone_ops", "private_value_ops", "parse_ops", "reader_saw_absolute_paths_only", "default_settings_ops_(real_file_system)", "clock_ops", "unchanged_after_a_panicking_reader", "parse_storm_on_version_dependent_pairs"];
    if !cfg!(miri) {
        rep.required_classes.push("reentrant_reader_completed");
        rep.required_classes.push("readers_waiting_for_each_other_completed");
    }
    let (_paths, blobs) = match load_corpus(&ctx.corpus) {
        Ok(x) => x,
        Err(e) => {
            rep.inconclusive.push(e);
            return rep;
        }
    };
    // everything that touches the environment or the file system on purpose happens *before* the window:
    // (the monitors require to see these two events, which proves they are alive)
    let _probe_env = std::env::var("TZMON_LIVENESS_PROBE");
    let _probe_open = std::fs::read("/etc/hostname");

    let mut rng = Rng::for_case(ctx.seed, 15, 0);
    let nfiles = 24.min(blobs.len());
    let mut pool: Vec<&Vec<u8>> = blobs.iter().collect();
    if cfg!(miri) {
        // the smaller half of the loaded files: same decoder paths, less interpreter time per parse
        pool.sort_by_key(|b| b.len());
        pool.truncate((pool.len() / 2).max(1));
    }
    let files: Vec<Vec<u8>> = (0..nfiles).map(|_| pool[rng.below(pool.len() as u64) as usize].clone()).collect();
    // version-dependent pairs: every version-3 file of the corpus (their footers use the RFC 8536 extensions) and its
    // twin relabelled version 2 (which must be refused): what decides between them is one octet of the input, so any
    // decoder state that outlives a call or is visible to another thread flips an answer
    let mut files = files;
    let mut pairs: Vec<Vec<u8>> = vec![];
    for b in blobs.iter().filter(|b| b.len() > 5 && b[4] == b'3') {
        let mut twin = b.clone();
        twin[4] = b'2';
        if let Some(h2) = twin.windows(4).skip(4).position(|w| w == b"TZif").map(|p| p + 4) {
            twin[h2 + 4] = b'2';
        }
        pairs.push(b.clone());
        pairs.push(twin);
        if pairs.len() >= if cfg!(miri) { 2 } else { 12 } {
            break;
        }
    }
    files.extend(pairs.iter().cloned());
    let mut zones: Vec<Arc<TimeZone>> = files.iter().take(8).filter_map(|b| TimeZone::from_tz_data(b).ok()).map(Arc::new).collect();
    let cfg = ZoneCfg::search();
    for _ in 0..6 {
        if let Ok(z) = gen_zone(&mut rng, &cfg).to_tz() {
            zones.push(Arc::new(z));
        }
    }
    // a zone with static lifetime (what a program keeping its local zone in a `static` has); held by a static of
    // the harness so that the leak detectors of Miri / LSan see it as reachable
    static LEAKED: std::sync::OnceLock<&'static TimeZone> = std::sync::OnceLock::new();
    let leaked: &'static TimeZone = LEAKED.get_or_init(|| Box::leak(Box::new(TimeZone::from_tz_data(&files[0]).unwrap_or_else(|_| TimeZone::utc()))));
    // TZ values of every shape (descriptions, file names, ':' values, "localtime", empty): all resolution paths are inside the window
    let strings: Vec<String> = IANA_FOOTERS.iter().map(|s| s.to_string()).chain(crate::mon::c20::VALUES.iter().map(|s| s.to_string())).chain(["garbage".to_string(), "EST5EDT".to_string(), "Zone/A".to_string(), ":Zone/A".to_string(), "Europe/Paris".to_string(), "abcdef".to_string(), "Asia/Seoul/xx".to_string(), "America/Boise".to_string()]).collect();
    let shared = Shared { zones, leaked, files, strings };

    let rounds = ctx.n(3, 12);
    // under the interpreter (~80 ms per call) the sequence length scales linearly with --scale
    let seq_len = if cfg!(miri) { ((4000.0 * ctx.scale).ceil() as usize).max(20) } else { ctx.inner(if ctx.quick() { 4000 } else { 12000 }) as usize };
    let mut l = Local::default();
    let mut all = Fnv::new();
    mark(true);
    for round in 0..rounds {
        for &nthreads in &[2usize, 4, 8, 16] {
            if cfg!(miri) && nthreads > 4 {
                continue;
            }
            let seqs: Vec<Vec<Op>> = (0..nthreads).map(|_| gen_ops(&mut rng, seq_len, shared.zones.len())).collect();
            // reference: each sequence alone
            let refs: Vec<(u64, u64)> = seqs.iter().map(|s| execute(&shared, s, None)).collect();
            // concurrent
            let barrier = Barrier::new(nthreads);
            let yseed = rng.next();
            let got: Vec<(u64, u64)> = std::thread::scope(|sc| {
                let hs: Vec<_> = seqs
                    .iter()
                    .enumerate()
                    .map(|(i, s)| {
                        let (shared, barrier) = (&shared, &barrier);
                        sc.spawn(move || {
                            barrier.wait();
                            let r = execute(shared, s, Some(yseed ^ i as u64));
                            facade::flush_thread();
                            r
                        })
                    })
                    .collect();
                hs.into_iter().map(|h| h.join().unwrap_or((0, 0))).collect()
            });
            for i in 0..nthreads {
                all = all.i(refs[i].0 as i64);
                l.op_n("API calls (concurrent)", got[i].1);
                l.op_n("API calls (alone)", refs[i].1);
                if got[i].0 != refs[i].0 {
                    l.violation(
                        "thread safety: a call sequence returns different results when other threads run concurrently",
                        format!("round {} threads {} sequence {} ({} operations, seed {})", round, nthreads, i, seq_len, ctx.seed),
                        format!("digest {:016x} (run alone)", refs[i].0),
                        format!("digest {:016x} (run concurrently)", got[i].0),
                    );
                }
                l.distinct_hash(Fnv::new().i(refs[i].0 as i64).i(nthreads as i64).i(round as i64).get());
            }
            {
                use std::sync::atomic::Ordering::Relaxed;
                let rel = RELATIVE_PATHS.swap(0, Relaxed);
                l.op_n("paths handed to the injected reader", READER_CALLS.swap(0, Relaxed));
                if rel > 0 {
                    let first = FIRST_RELATIVE.lock().ok().and_then(|mut g| g.take()).unwrap_or_default();
                    l.violation(
                        "ambient state: a relative path is handed to the file reader (its meaning depends on the process-wide working directory)",
                        format!("TZ values resolved with directories [\"/tzmon-d1\", \"/tzmon-d2\"], round {} threads {}", round, nthreads),
                        "absolute paths only".into(),
                        format!("{} relative paths, first: {:?}", rel, first),
                    );
                } else {
                    l.class("reader_saw_absolute_paths_only");
                }
            }
            l.class(match nthreads {
                2 => "threads_2",
                4 => "threads_4",
                8 => "threads_8",
                _ => "threads_16",
            });
            for s in &seqs {
                for op in s {
                    match op {
                        Op::Lookup(..) | Op::FromTimespec(..) | Op::Find(..) | Op::FindN(..) | Op::Format(..) => l.class("shared_zone_ops"),
                        Op::ParseFile(_) | Op::ParseString(_) => l.class("parse_ops"),
                        Op::Local | Op::DefaultPosix(_) => l.class("default_settings_ops_(real_file_system)"),
                        Op::Now(_) => l.class("clock_ops"),
                        _ => l.class("private_value_ops"),
                    }
                }
            }
            if round == 0 && nthreads == 4 {
                l.sample(|| Json::obj().set("threads", nthreads).set("sequence_length", seq_len).set("first_ops", format!("{:?}", &seqs[0][..6.min(seqs[0].len())])).set("digest_alone", format!("{:016x}", refs[0].0)).set("digest_concurrent", format!("{:016x}", got[0].0)));
            }
        }
    }
    // parse storm: threads that do nothing but decode the version-dependent pairs, so that many decodings of files of
    // different versions are in flight at the same time; every answer must be the answer the file gets alone
    if !pairs.is_empty() {
        let alone: Vec<u64> = pairs.iter().map(|b| parse_class(b)).collect();
        let nthreads = if cfg!(miri) { 2 } else { 8 };
        let iters = if cfg!(miri) { 6 } else { ctx.inner(3000) as usize };
        let barrier = Barrier::new(nthreads);
        let wrong: Vec<(u64, Option<usize>)> = std::thread::scope(|sc| {
            let hs: Vec<_> = (0..nthreads)
                .map(|t| {
                    let (pairs, alone, barrier) = (&pairs, &alone, &barrier);
                    sc.spawn(move || {
                        barrier.wait();
                        let mut bad = 0u64;
                        let mut first = None;
                        for i in 0..iters {
                            let k = (i * 7 + t * 3) % pairs.len();
                            if parse_class(&pairs[k]) != alone[k] {
                                bad += 1;
                                first.get_or_insert(k);
                            }
                        }
                        (bad, first)
                    })
                })
                .collect();
            hs.into_iter().map(|h| h.join().unwrap_or((u64::MAX, None))).collect()
        });
        l.op_n("TimeZone::from_tz_data (parse storm)", (nthreads * iters) as u64);
        l.class("parse_storm_on_version_dependent_pairs");
        let total: u64 = wrong.iter().map(|w| w.0).fold(0, |a, b| a.saturating_add(b));
        if total > 0 {
            let k = wrong.iter().find_map(|w| w.1).unwrap_or(0);
            l.violation(
                "thread safety: decoding a file gives a different answer while other threads decode other files",
                format!("{} threads x {} decodings of {} files (version-3 files and their version-2 twins); first wrong answer on file #{} (version octet {:?})", nthreads, iters, pairs.len(), k, pairs[k][4] as char),
                "the answer each file gets when decoded alone".into(),
                format!("{} wrong answers", total),
            );
        }
        // and afterwards, alone again: nothing may have stuck
        let after: Vec<u64> = pairs.iter().map(|b| parse_class(b)).collect();
        if after != alone {
            l.violation("ambient state: decoding a file gives a different answer after the concurrent phase", format!("{} files decoded alone before and after", pairs.len()), format!("{:?}", alone), format!("{:?}", after));
        }
    }
    mark(false);
    facade::flush_thread();
    // outside the window (the deadlock detector reads procfs)
    hostile_readers(&mut l);
    // digest of everything the workload computed: must not depend on TZ, TZDIR, LANG or the working directory
    rep.extra.insert("workload_digest".into(), Json::Str(format!("{:016x}", all.get())));
    rep.merge(l);
    rep
}
