//! C12 leap seconds: UTC <-> leap-count conversions are monotone, mutually consistent and drive lookups.
//!
//! Probe zone: leap table, one transition A -> B recorded at count T and a far sentinel back to A.
//!  (forward)     find_local_time_type(u) must be B exactly when f(u) >= T  - asked around the switch
//!                this pins the hidden UTC -> count conversion at u;
//!  (inverse)     the Skipped entry of a search inside B's gap must report the instant g(T);
//!  (consistency) the reported instant is the first instant at which the forward lookup returns B;
//!  (monotone)    the reported instants are non-decreasing in T.

use crate::core::{run_cases, Ctx, Fnv, Local, Report};
use crate::facade;
use crate::gen::zone::gen_leaps;
use crate::model::cal;
use crate::model::leap::LeapTable;
use crate::model::rule::TypeSpec;
use crate::model::zone::{Fwd, ZoneSpec};
use crate::mon::common::build;
use crate::util::json::Json;
use tz::datetime::FoundDateTimeKind;

pub const REAL_TABLE: [(i64, i32); 27] = [
    (78796800, 1),
    (94694401, 2),
    (126230402, 3),
    (157766403, 4),
    (189302404, 5),
    (220924805, 6),
    (252460806, 7),
    (283996807, 8),
    (315532808, 9),
    (362793609, 10),
    (394329610, 11),
    (425865611, 12),
    (489024012, 13),
    (567993613, 14),
    (631152014, 15),
    (662688015, 16),
    (709948816, 17),
    (741484817, 18),
    (773020818, 19),
    (820454419, 20),
    (867715220, 21),
    (915148821, 22),
    (1136073622, 23),
    (1230768023, 24),
    (1341100824, 25),
    (1435708825, 26),
    (1483228826, 27),
];

/// offsets (A, B) of the probe zone: A before the transition, B = A + 3600 after it. Shape 0 keeps A on UTC; shapes 1
/// and 2 put both readings of a local time away from UTC, west and east (the candidates the search has to convert
/// then lie on either side of a nearby leap record).
pub const SHAPES: [(i32, i32); 3] = [(0, 3600), (-7200, -3600), (3600, 7200)];

fn probe_zone(leaps: &LeapTable, t: i64, shape: usize) -> ZoneSpec {
    let (oa, ob) = SHAPES[shape];
    ZoneSpec { transitions: vec![(t, 1), (t.saturating_add(1_000_000_000_000), 0)], types: vec![TypeSpec::new(oa, false, Some("AAA")), TypeSpec::new(ob, true, Some("BBB"))], leaps: leaps.clone(), rule: None }
}

/// returns the instant the search reported for the transition, if any
pub fn check_t(l: &mut Local, leaps: &LeapTable, t: i64, shape: usize) -> (u64, Option<i64>) {
    let (oa, ob) = SHAPES[shape];
    let z = probe_zone(leaps, t, shape);
    let b = match build(&z) {
        Ok(b) => b,
        Err(e) => {
            l.violation("leap seconds: valid probe zone refused", z.describe(), "Ok".into(), e);
            return (0, None);
        }
    };
    let tz = b.tz.as_ref();
    let zm = z.model();
    let x = leaps.switch(t);
    if x < cal::min_unix() as i128 / 2 || x > cal::max_unix() as i128 / 2 {
        return (0, None);
    }
    let x = x as i64;
    let mut calls = 0;
    // classes
    for (k, &(li, ci)) in leaps.0.iter().enumerate() {
        let prev = if k == 0 { 0 } else { leaps.0[k - 1].1 };
        let positive = ci > prev;
        if t == li {
            l.class(if positive { "T_on_a_positive_record" } else { "T_on_a_negative_record" });
            if k == 0 {
                l.class("T_on_first_record");
            }
            if k + 1 == leaps.0.len() {
                l.class("T_on_last_record");
            }
        }
        if t == li + 1 {
            l.class(if positive { "T_just_after_a_positive_record" } else { "T_just_after_a_negative_record" });
        }
    }
    // (forward) around the switch instant
    for d in -3..=3i64 {
        let u = x + d;
        if leaps.is_deleted(u) {
            l.class("u_on_a_deleted_second");
        }
        if leaps.g((leaps.f(u) - 1) as i64) == u as i128 && leaps.f(u) - 1 != leaps.f(u - 1) {
            l.class("u_on_a_shared_second_(inserted_leap)");
        }
        let exp = zm.forward(u);
        let got = facade::lookup(tz, u);
        calls += 1;
        match (&exp, &got) {
            (Fwd::Type(e), Ok(g)) => {
                if !e.same_as(g) {
                    l.violation(
                        "leap seconds: forward lookup switches at the wrong UTC instant",
                        format!("find_local_time_type({}) with transition A->B at count {} and leap table {:?}", u, t, leaps.0),
                        format!("{} because f({}) = {} {} T; the transition takes effect at UTC {}", e, u, leaps.f(u), if leaps.f(u) >= t as i128 { ">=" } else { "<" }, x),
                        format!("{}", TypeSpec::from_tz(g)),
                    );
                }
            }
            (Fwd::Type(e), Err(err)) => l.violation("leap seconds: forward lookup fails", format!("find_local_time_type({}) with transition at count {} and leap table {:?}", u, t, leaps.0), format!("{}", e), format!("Err({:?})", err)),
            _ => {}
        }
    }
    // (inverse) a search inside B's gap: local time X + A + 1800 (A shows X + A, B shows X + A + 3600)
    let c = x + oa as i64 + 1800;
    let cv = cal::civil_from_unix(c);
    let mut reported = None;
    match facade::find(cv.year as i32, cv.month, cv.day, cv.hour, cv.minute, cv.second, 0, tz) {
        Ok(list) => {
            calls += 1;
            let v = list.into_inner();
            let inst: Vec<i64> = v
                .iter()
                .filter_map(|k| match k {
                    FoundDateTimeKind::Skipped { before_transition, after_transition } => {
                        if before_transition.unix_time() != after_transition.unix_time() {
                            None
                        } else {
                            Some(before_transition.unix_time())
                        }
                    }
                    _ => None,
                })
                .collect();
            if v.len() != 1 || inst.len() != 1 {
                l.violation(
                    "leap seconds: search inside the gap does not report exactly the gap",
                    format!("DateTime::find({}) with transition A->B at count {} and leap table {:?}", cv, t, leaps.0),
                    format!("[Skipped at UTC {}]", x),
                    format!(
                        "{} entries: {:?}",
                        v.len(),
                        v.iter()
                            .map(|k| match k {
                                FoundDateTimeKind::Normal(d) => format!("Normal@{}", d.unix_time()),
                                FoundDateTimeKind::Skipped { before_transition, after_transition } => format!("Skipped@{}/{}", before_transition.unix_time(), after_transition.unix_time()),
                            })
                            .collect::<Vec<_>>()
                    ),
                );
            } else {
                let r = inst[0];
                reported = Some(r);
                if r != x {
                    l.violation(
                        "leap seconds: the search reports the transition at the wrong UTC instant",
                        format!("DateTime::find({}) with transition A->B at count {} and leap table {:?}", cv, t, leaps.0),
                        format!("g(T) = {}", x),
                        format!("{}", r),
                    );
                }
                // (consistency) with the implementation's own forward lookup
                let at = facade::lookup(tz, r).map(|g| g.ut_offset());
                let before = facade::lookup(tz, r - 1).map(|g| g.ut_offset());
                calls += 2;
                if at != Ok(ob) || before != Ok(oa) {
                    l.violation(
                        "leap seconds: the instant reported by the search is not the instant at which the forward lookup switches type",
                        format!("transition A->B at count {} and leap table {:?}: search reports UTC {}", t, leaps.0, r),
                        format!("find_local_time_type({}) = A and find_local_time_type({}) = B", r - 1, r),
                        format!("offsets {:?} and {:?}", before, at),
                    );
                }
            }
        }
        Err(e) => l.violation("leap seconds: search inside the gap fails", format!("DateTime::find({}) with transition at count {} and leap table {:?}", cv, t, leaps.0), "Ok".into(), format!("Err({:?})", e)),
    }
    // (inverse, at the edges) the last local second before the gap, the first and last inside it, the first after it,
    // and the same around the local time that B shows one hour later: judged by the search oracle of C05 / C06 with
    // the model's forward lookup as the clock, so that every candidate reading is converted on its own
    let mut stale = vec![None; 6];
    for c in [x + oa as i64 - 1, x + oa as i64, x + ob as i64 - 1, x + ob as i64, x + ob as i64 + 3600] {
        let q = crate::mon::c05::Search::from_civil_seconds(c, 0, false);
        calls += crate::mon::c05::check_search(l, crate::mon::c05::Which::C06, &zm, tz, &q, &mut stale);
        calls += crate::mon::c05::check_search(l, crate::mon::c05::Which::C05, &zm, tz, &q, &mut stale);
    }
    if shape != 0 && leaps.0.iter().any(|&(li, _)| li != t && (li - t).abs() <= 7200) {
        l.class("leap_record_within_the_offsets_of_the_transition");
    }
    (calls, reported)
}

/// Probe zones at the top of the i64 range: the last leap record within a few seconds of `i64::MAX` (so that, with a
/// negative cumulative correction before it, it may lie *beyond* the last UTC instant and never apply), one transition
/// A -> B at a count T within a few seconds of the top, no rule or a fixed rule B. The forward lookup is asked at the
/// last seconds of i64 and around the switch: this pins the UTC -> count conversion where a saturated or wrapped
/// intermediate compares differently from the exact value. No search here: these instants have no calendar date.
pub fn check_edge(l: &mut Local, leaps: &LeapTable, t: i64, fixed_rule: bool) -> u64 {
    let types = vec![TypeSpec::new(0, false, Some("AAA")), TypeSpec::new(3600, true, Some("BBB"))];
    let x = leaps.switch(t);
    let rule = if fixed_rule && x <= i64::MAX as i128 && x >= i64::MIN as i128 { Some(crate::model::zone::RuleSpec::Fixed(types[1].clone())) } else { None };
    let z = ZoneSpec { transitions: vec![(t, 1)], types, leaps: leaps.clone(), rule };
    let b = match build(&z) {
        Ok(b) => b,
        Err(e) => {
            l.violation("leap seconds: valid probe zone refused", z.describe(), "Ok".into(), e);
            return 0;
        }
    };
    let tz = b.tz.as_ref();
    let zm = z.model();
    let mut us: Vec<i64> = (0..8).map(|d| i64::MAX - d).collect();
    for d in -3..=3i128 {
        if let Ok(u) = i64::try_from(x + d) {
            us.push(u);
        }
    }
    us.sort();
    us.dedup();
    let mut calls = 0;
    for u in us {
        let exp = zm.forward(u);
        let got = facade::lookup(tz, u);
        calls += 1;
        let what = || format!("find_local_time_type({}) with transition A->B at count {} ({}) and leap table {:?}", u, t, if z.rule.is_some() { "fixed rule B" } else { "no rule" }, leaps.0);
        let why = |e: &dyn std::fmt::Display| format!("{} because f({}) = {} {} T", e, u, leaps.f(u), if leaps.f(u) >= t as i128 { ">=" } else { "<" });
        match (&exp, &got) {
            (Fwd::Unspec, _) => l.unspecified += 1,
            (Fwd::Type(e), Ok(g)) => {
                if !e.same_as(g) {
                    l.violation("leap seconds: forward lookup switches at the wrong UTC instant (top of the i64 range)", what(), why(e), format!("{}", TypeSpec::from_tz(g)));
                }
            }
            (Fwd::Type(e), Err(err)) => l.violation("leap seconds: forward lookup fails (top of the i64 range)", what(), why(e), format!("Err({:?})", err)),
            (Fwd::NoType, Err(crate::facade::E::NoAvailableLocalTimeType)) => {}
            (Fwd::NoType, Ok(g)) => l.violation("leap seconds: forward lookup switches at the wrong UTC instant (top of the i64 range)", what(), why(&"no type (at or after the last transition of a zone without rule)"), format!("{}", TypeSpec::from_tz(g))),
            (Fwd::NoType, Err(err)) => l.violation("leap seconds: forward lookup fails (top of the i64 range)", what(), why(&"Err(NoAvailableLocalTimeType)"), format!("Err({:?})", err)),
        }
    }
    calls
}

pub fn check_table(l: &mut Local, leaps: &LeapTable, extra_ts: &[i64]) -> u64 {
    let mut ts: Vec<i64> = vec![];
    for &(li, _) in &leaps.0 {
        for d in -2..=2i64 {
            ts.push(li + d);
        }
    }
    ts.extend_from_slice(extra_ts);
    ts.sort();
    ts.dedup();
    // transitions that are not on a record but closer to it than the zone's offsets, on either side
    let mut near: Vec<i64> = vec![];
    for &(li, _) in leaps.0.iter().take(3).chain(leaps.0.last()) {
        for d in [600i64, 1800, 3599, 3600, 3601, 7199, 7200, 7201] {
            near.push(li + d);
            near.push(li - d);
        }
        near.extend([li - 1, li, li + 1]);
    }
    near.sort();
    near.dedup();
    if cfg!(miri) {
        // interpreted slices: one record, the two distances that matter most
        near = leaps.0.iter().take(1).flat_map(|&(li, _)| [li - 1800, li + 1800, li - 3599, li + 3599]).collect();
    }
    let mut calls = 0;
    let mut last: Option<(i64, i64)> = None;
    if leaps.0.windows(2).any(|w| w[1].1 < w[0].1) || leaps.0.first().map(|r| r.1 < 0).unwrap_or(false) {
        l.class("table_with_negative_leap");
    }
    if leaps.0.windows(2).any(|w| w[1].0 - w[0].0 == 2_419_199) {
        l.class("minimal_spacing");
    }
    for shape in [1usize, 2] {
        for &t in &near {
            calls += check_t(l, leaps, t, shape).0;
        }
    }
    for &t in &ts {
        let (c, rep) = check_t(l, leaps, t, 0);
        calls += c;
        if let Some(r) = rep {
            if let Some((pt, pr)) = last {
                if r < pr {
                    l.violation("leap seconds: reported switch instants are not monotone in T", format!("leap table {:?}: T = {} then T = {}", leaps.0, pt, t), format!("instant(T={}) >= {}", t, pr), format!("{}", r));
                }
            }
            last = Some((t, r));
        }
    }
    calls
}

pub fn run(ctx: &Ctx) -> Report {
    let mut rep = Report::new("C12");
    rep.rule = "cases = (leap table, transition count T) probe zones: tables with first correction +-1, steps +-1, spacing exactly 2 419 199 s and larger, 1..40 records, mixed signs, and the real 27-record table; T at every record -2..+2 plus random T; per probe zone 7 lookups around the switch, one search inside the gap and two consistency lookups. \
                Oracle: M-leap (g by definition, f = max{L : g(L) <= u} by segment scan, brute-force validated at start-up). distinct_nontrivial = distinct (table, T) pairs."
        .into();
    rep.required_classes = vec![
        "T_on_a_positive_record",
        "T_on_a_negative_record",
        "T_just_after_a_positive_record",
        "T_just_after_a_negative_record",
        "T_on_first_record",
        "T_on_last_record",
        "u_on_a_deleted_second",
        "u_on_a_shared_second_(inserted_leap)",
        "table_with_negative_leap",
        "minimal_spacing",
        "real_27_record_table",
        "leap_record_within_the_offsets_of_the_transition",
        "last_record_at_the_top_of_i64",
        "last_record_beyond_the_last_utc_instant",
    ];
    if let Err(e) = crate::mon::c03::self_tests() {
        rep.inconclusive.push(format!("model self-test failed: {}", e));
        return rep;
    }
    run_cases(ctx, &mut rep, 1, 1, |l, _rng, _| {
        let t = LeapTable(if ctx.scale < 1.0 { REAL_TABLE[..4].to_vec() } else { REAL_TABLE.to_vec() });
        let n = check_table(l, &t, &[0, 1_700_000_000, 1483228826 + 5_000_000]);
        l.class("real_27_record_table");
        l.op_n("probe-zone lookups and searches", n);
        l.distinct_enumerated += 27 * 5 + 3;
        l.sample(|| Json::obj().set("table", "the 27 records of right/UTC (tzdata 2025b)").set("T_values", 27 * 5 + 3));
    });
    run_cases(ctx, &mut rep, 2, ctx.n(30_000, 600_000), |l, rng, i| {
        let mut t = gen_leaps(rng, true);
        if ctx.scale < 1.0 {
            t.0.truncate(3); // slices: short tables (every record costs ~60 interpreted calls)
        }
        let mut extra = vec![];
        for _ in 0..3 {
            let (li, _) = *rng.pick(&t.0);
            extra.push(li + rng.range(-3_000_000, 3_000_000));
        }
        let n = check_table(l, &t, &extra);
        l.op_n("probe-zone lookups and searches", n);
        let mut h = Fnv::new();
        for &(a, b) in &t.0 {
            h = h.i(a).i(b as i64);
        }
        l.distinct_hash(h.get());
        if i % 1500 == 1 {
            l.sample(|| Json::obj().set("table", format!("{:?}", t.0)));
        }
    });
    // wl 3: the top of the i64 range
    run_cases(ctx, &mut rep, 3, ctx.n(3000, 60_000), |l, rng, i| {
        let mut v: Vec<(i64, i32)> = vec![];
        let mut c: i32 = if rng.chance(1, 2) { 1 } else { -1 };
        let mut li: i64 = rng.range(0, 1_000_000);
        for _ in 0..rng.below(5) {
            v.push((li, c));
            li += rng.range(2_419_199, 90_000_000);
            c += if rng.chance(1, 2) { 1 } else { -1 };
        }
        if v.is_empty() {
            c = if rng.chance(1, 2) { 1 } else { -1 };
        }
        let prev = v.last().map(|r| r.1).unwrap_or(0);
        let top = i64::MAX - rng.below(6) as i64;
        v.push((top, c));
        let t = LeapTable(v);
        l.class("last_record_at_the_top_of_i64");
        // the record starts to apply at UTC top - prev: beyond i64::MAX when prev is negative enough
        if top as i128 - prev as i128 > i64::MAX as i128 {
            l.class("last_record_beyond_the_last_utc_instant");
        }
        if t.0.windows(2).any(|w| w[1].1 < w[0].1) || t.0[0].1 < 0 {
            l.class("table_with_negative_leap");
        }
        let mut n = 0;
        for d in 0..8i64 {
            n += check_edge(l, &t, i64::MAX - d, rng.chance(1, 2));
        }
        n += check_edge(l, &t, rng.range(2000, 1 << 40), true);
        l.op_n("probe-zone lookups at the top of the i64 range", n);
        let mut h = Fnv::new();
        for &(a, b) in &t.0 {
            h = h.i(a).i(b as i64);
        }
        l.distinct_hash(h.get());
        if i % 1000 == 1 {
            l.sample(|| Json::obj().set("table", format!("{:?}", t.0)).set("T_values", "i64::MAX - 0..8"));
        }
    });
    rep
}
