//! C09: POSIX TZ string decoding follows the grammar, its defaults and sign conventions.
//!
//! Every string goes through up to three entry points - `TimeZoneSettings::parse_posix_tz` with a
//! reader that always fails (extensions off), a minimal version-2 footer (off), a version-3 footer
//! (on) - and the rule observed through `extra_rule()` is compared with M-posix (recogniser +
//! denotation written from the grammar). Refuting observation: a decoded rule differing from
//! M-posix's, or Ok/Err differing from the recogniser. Error variants are not compared.

use crate::core::{run_cases, run_enum, Ctx, Expect, Fnv, Local, Report};
use crate::gen::posix::{rand_expressible, spell_alt, spell_fixed};
use crate::model::posix;
use crate::model::zone::{RuleSpec, ZoneSpec};
use crate::util::json::Json;
use crate::util::rng::Rng;
use tz::{TimeZone, TimeZoneSettings};

fn footer_file(version: u8, text: &[u8]) -> Vec<u8> {
    let mut f = Vec::with_capacity(120 + text.len());
    for _ in 0..2 {
        f.extend(b"TZif");
        f.push(version);
        f.extend([0u8; 15]);
        for c in [0u32, 0, 0, 0, 1, 4] {
            f.extend(c.to_be_bytes());
        }
        f.extend([0, 0, 0, 0, 0, 0]);
        f.extend(b"UTC\0");
    }
    f.push(b'\n');
    f.extend(text);
    f.push(b'\n');
    f
}

fn fmt_rule(r: &RuleSpec) -> String {
    match r {
        RuleSpec::Fixed(t) => format!("Fixed{}", t),
        RuleSpec::Alt(a) => format!("{}", a),
    }
}

fn show(s: &[u8]) -> String {
    match std::str::from_utf8(s) {
        Ok(t) => format!("{:?}", t),
        Err(_) => format!("bytes {:?}", s),
    }
}

fn judge(l: &mut Local, entry: &'static str, s: &[u8], ext: bool, got: Result<Option<RuleSpec>, String>) {
    let exp = posix::parse(s, ext);
    match (&exp, &got) {
        (Expect::Unspec, _) => l.unspecified += 1,
        (Expect::Must(r), Ok(Some(g))) => {
            if r != g {
                l.violation("TZ string: decoded to another rule than the one it denotes", format!("{} via {}", show(s), entry), fmt_rule(r), fmt_rule(g));
            }
        }
        (Expect::Must(r), Ok(None)) => l.violation("TZ string: sentence gave no rule", format!("{} via {}", show(s), entry), fmt_rule(r), "no rule".into()),
        (Expect::Must(r), Err(e)) => l.violation("TZ string: sentence of the grammar refused", format!("{} via {}", show(s), entry), fmt_rule(r), format!("Err({})", e)),
        (Expect::MustFail, Ok(g)) => l.violation("TZ string: non-sentence accepted", format!("{} via {}", show(s), entry), "Err".into(), format!("{:?}", g.as_ref().map(fmt_rule))),
        (Expect::MustFail, Err(_)) => {}
    }
}

fn classes(l: &mut Local, s: &[u8]) {
    // semantic classes of the *input*, computed with the model
    let off = posix::parse(s, false);
    let on = posix::parse(s, true);
    match (&off, &on) {
        (Expect::Must(_), _) => l.class("sentence_(plain_posix)"),
        (Expect::MustFail, Expect::Must(_)) => l.class("sentence_only_with_extensions_(signed_or_>24h_time)"),
        (Expect::MustFail, Expect::MustFail) => l.class("non_sentence"),
        _ => {}
    }
    if let Expect::Must(r) = &on {
        match r {
            RuleSpec::Fixed(_) => l.class("no_dst_part"),
            RuleSpec::Alt(a) => {
                let t = std::str::from_utf8(s).unwrap_or("");
                let commas: Vec<&str> = t.split(',').collect();
                if commas.len() == 3 {
                    if !commas[1].contains('/') || !commas[2].contains('/') {
                        l.class("default_time_02:00:00");
                    }
                    if commas[1].contains('/') {
                        l.class("explicit_time");
                    }
                }
                if a.dst.off == a.std.off + 3600 {
                    l.class("dst_one_hour_ahead");
                } else {
                    l.class("dst_offset_explicit_other");
                }
                if a.std.off > 0 {
                    l.class("east_of_greenwich_(negative_posix_offset)");
                }
                if a.start_time == 86400 || a.end_time == 86400 {
                    l.class("hour_24");
                }
                if a.start_time.abs() >= 167 * 3600 || a.end_time.abs() >= 167 * 3600 {
                    l.class("extended_hour_167");
                }
            }
        }
        if s.contains(&b'<') {
            l.class("quoted_name");
        }
    }
}

/// one string through the applicable entry points
pub fn check_string(l: &mut Local, s: &[u8]) -> u64 {
    classes(l, s);
    let mut n = 0;
    // (a) settings with a reader that always fails: file lookups fail, the value is then decoded as a description
    if let Ok(text) = std::str::from_utf8(s) {
        if !text.is_empty() && text != "localtime" && !text.starts_with(':') {
            let settings = TimeZoneSettings::new(&["/nonexistent"], |_| Err("no such file".into()));
            let got = settings.parse_posix_tz(text).map(|z| ZoneSpec::from_tz(&z.as_ref()).rule).map_err(|e| format!("{:?}", crate::facade::top_err(&e)));
            crate::facade::ev("TimeZoneSettings::parse_posix_tz", [s.len() as i64, 0, 0, 0], got.is_ok(), 0);
            // the zone built from a description must also carry exactly the rule's types
            if let Ok(z) = settings.parse_posix_tz(text) {
                let zs = ZoneSpec::from_tz(&z.as_ref());
                let want_types = match &zs.rule {
                    Some(RuleSpec::Fixed(t)) => vec![t.clone()],
                    Some(RuleSpec::Alt(a)) => vec![a.std.clone(), a.dst.clone()],
                    None => vec![],
                };
                if zs.types != want_types || !zs.transitions.is_empty() {
                    l.violation("TZ string: zone built from a description does not consist of the rule's types", show(s), format!("{:?}", want_types), zs.describe());
                }
            }
            judge(l, "TimeZoneSettings::parse_posix_tz (extensions off)", s, false, got);
            n += 1;
        }
    }
    // (b), (c) footers; empty text means "no rule" there and a leading ':' / NUL is the file format's business (C08)
    if !s.is_empty() && s[0] != b':' && !s.contains(&0) {
        for (version, ext, entry) in [(b'2', false, "version-2 footer (extensions off)"), (b'3', true, "version-3 footer (extensions on)")] {
            let f = footer_file(version, s);
            let got = TimeZone::from_tz_data(&f).map(|z| ZoneSpec::from_tz(&z.as_ref()).rule).map_err(|e| format!("{:?}", crate::facade::tz_err(&e)));
            crate::facade::ev("TimeZone::from_tz_data(footer)", [s.len() as i64, version as i64, 0, 0], got.is_ok(), 0);
            if std::str::from_utf8(s).is_err() {
                // not UTF-8: the footer must be refused whatever the grammar says
                if got.is_ok() {
                    l.violation("TZ string: non-UTF-8 footer accepted", show(s), "Err".into(), "Ok".into());
                }
                l.class("non_utf8_through_footer");
            } else {
                judge(l, entry, s, ext, got);
            }
            n += 1;
        }
    }
    n
}

const NAMES: [&str; 11] = ["EST", "ABCDEFG", "<+03>", "<-0330>", "<A1+>", "ES", "ABCDEFGH", "<ab>", "<abcdefgh>", "E1T", "<EST"];
const OFFS: [&str; 15] = ["5", "+5", "-5", "05", "005", "5:30", "-0:30", "5:30:15", "24", "24:59:59", "25", "5:60", "", "5:", "5:30:60"];
const DAYS: [&str; 14] = ["J1", "J60", "J365", "J0", "J366", "0", "59", "365", "366", "M1.1.0", "M2.5.6", "M12.5.0", "M13.1.0", "M1.1.7"];
const DAYS2: [&str; 6] = ["M1.0.0", "M1.6.0", "M1.1", "1.1.0", "J", "M"];
const TIMES: [&str; 14] = ["", "/2", "/0", "/24", "/25", "/-1", "/+1", "/167", "/168", "/2:30:30", "/2:60", "/24:59:59", "/-167:59:59", "/"];
const DSTS: [&str; 7] = ["", "EDT", "EDT4", "<+04>-4", "EDT+4:00:00", "ED", "EDT25"];

/// cross product of the grammar's options; index -> string
fn cross(i: u64) -> String {
    let mut i = i;
    let mut take = |n: usize| {
        let k = (i % n as u64) as usize;
        i /= n as u64;
        k
    };
    let name = NAMES[take(NAMES.len())];
    let off = OFFS[take(OFFS.len())];
    let dst = DSTS[take(DSTS.len())];
    if dst.is_empty() {
        return format!("{}{}", name, off);
    }
    let alld: Vec<&str> = DAYS.iter().chain(DAYS2.iter()).copied().collect();
    let d1 = alld[take(alld.len())];
    let t1 = TIMES[take(TIMES.len())];
    let d2 = alld[take(alld.len())];
    let t2 = TIMES[take(TIMES.len())];
    let tail = take(4);
    match tail {
        0 | 1 => format!("{}{}{},{}{},{}{}", name, off, dst, d1, t1, d2, t2),
        2 => format!("{}{}{},{}{}", name, off, dst, d1, t1), // missing end rule
        _ => format!("{}{}{},{}{},{}{},", name, off, dst, d1, t1, d2, t2), // trailing character
    }
}

const CROSS_TOTAL: u64 = (NAMES.len() * OFFS.len() * DSTS.len() * 20 * TIMES.len() * 20 * TIMES.len() * 4) as u64;

const EDIT_ALPHA: &[u8] = b"E5:<>+-,JM./0129 ";

fn sentence(rng: &mut Rng) -> String {
    match rand_expressible(rng) {
        RuleSpec::Fixed(t) => spell_fixed(&t, rng),
        RuleSpec::Alt(a) => spell_alt(&a, rng).0,
    }
}

pub fn run(ctx: &Ctx) -> Report {
    let mut rep = Report::new("C09");
    rep.rule = "cases = byte strings pushed through TimeZoneSettings::parse_posix_tz (reader always fails; extensions off), a minimal version-2 footer (off) and a version-3 footer (on); oracle = M-posix, a recursive-descent recogniser + denotation written from the grammar (Must / MustFail / Unspec: in-range numbers written with more than 3 digits, whitespace, non-ASCII letters next to an unquoted name). \
                Enumerated: cross product of name forms x offset spellings x DST forms x day notations x time forms x {complete, missing end rule, trailing character} (strided in the quick tier); every single-character edit (delete / insert / replace over a 17-letter alphabet) of generated sentences; thorough: all strings of length <= 6 over a 14-letter alphabet. \
                every number of generated sentences replaced by the value + {128, 256, 512, 768, 2^15, 2^16, 3*2^16, 2^31, 2^32, 2^64}. Random: grammar-directed sentences of random rules with random spellings. distinct_nontrivial = distinct strings."
        .into();
    rep.required_classes = vec![
        "sentence_(plain_posix)",
        "sentence_only_with_extensions_(signed_or_>24h_time)",
        "non_sentence",
        "no_dst_part",
        "default_time_02:00:00",
        "explicit_time",
        "dst_one_hour_ahead",
        "dst_offset_explicit_other",
        "east_of_greenwich_(negative_posix_offset)",
        "hour_24",
        "extended_hour_167",
        "quoted_name",
        "non_utf8_through_footer",
        "number_congruent_modulo_a_power_of_two",
        "sentence_wrapped_in_non_ascii_white_space",
    ];
    if let Err(e) = crate::mon::c03::self_tests() {
        rep.inconclusive.push(format!("model self-test failed: {}", e));
        return rep;
    }
    // wl 1: cross product (quick: a stride through it)
    let n1 = if ctx.quick() { 600_000 } else { CROSS_TOTAL.min(12_000_000) };
    let stride = (CROSS_TOTAL / n1).max(1) | 1;
    run_cases(ctx, &mut rep, 1, ctx.n(n1 / 64, n1 / 64), |l, _rng, i| {
        let mut n = 0;
        for k in 0..64 {
            let idx = ((i * 64 + k) * stride) % CROSS_TOTAL;
            let s = cross(idx);
            n += check_string(l, s.as_bytes());
            l.distinct_hash(Fnv::new().b(s.as_bytes()).get());
            if idx % 999_983 == 0 {
                l.sample(|| Json::obj().set("string", s.clone()).set("model_plain", format!("{:?}", posix::parse(s.as_bytes(), false))));
            }
        }
        l.op_n("parse entry points", n);
    });
    // wl 2: single-character edits of sentences
    run_cases(ctx, &mut rep, 2, ctx.n(1500, 12_000), |l, rng, i| {
        let s = sentence(rng).into_bytes();
        let mut n = check_string(l, &s);
        let step = if ctx.scale < 1.0 { 7 } else { 1 };
        let mut p = 0;
        while p <= s.len() {
            if p < s.len() {
                let mut d = s.clone();
                d.remove(p);
                n += check_string(l, &d);
                l.distinct_hash(Fnv::new().b(&d).get());
            }
            for &c in if ctx.scale < 1.0 { &EDIT_ALPHA[..3] } else { EDIT_ALPHA } {
                let mut ins = s.clone();
                ins.insert(p, c);
                n += check_string(l, &ins);
                l.distinct_hash(Fnv::new().b(&ins).get());
                if p < s.len() && s[p] != c {
                    let mut r = s.clone();
                    r[p] = c;
                    n += check_string(l, &r);
                    l.distinct_hash(Fnv::new().b(&r).get());
                }
            }
            p += step;
        }
        l.op_n("parse entry points", n);
        if i % 100 == 0 {
            l.sample(|| Json::obj().set("sentence", String::from_utf8_lossy(&s).to_string()).set("edits", "every delete / insert / replace over the alphabet"));
        }
    });
    // wl 3: generated sentences with random numbers and spellings, plus byte-level noise incl. non-UTF-8
    run_cases(ctx, &mut rep, 3, ctx.n(10_000, 200_000), |l, rng, _| {
        let mut n = 0;
        for _ in 0..ctx.inner(64) {
            let s = sentence(rng).into_bytes();
            n += check_string(l, &s);
            l.distinct_hash(Fnv::new().b(&s).get());
            if rng.chance(1, 3) {
                // characters that are white space for Unicode (or for C's isspace) but not ASCII white space, at the
                // ends of a sentence: not stripped by any entry point, so the string is not a sentence
                const WS: [&str; 14] = ["\u{b}", "\u{85}", "\u{a0}", "\u{1680}", "\u{2000}", "\u{2003}", "\u{200a}", "\u{2028}", "\u{2029}", "\u{202f}", "\u{205f}", "\u{3000}", "\u{feff}", "\u{1c}"];
                let w = rng.pick(&WS).as_bytes();
                let mut b = vec![];
                let side = rng.below(3);
                if side != 1 {
                    b.extend(w);
                }
                b.extend(&s);
                if side != 0 {
                    b.extend(w);
                }
                n += check_string(l, &b);
                l.distinct_hash(Fnv::new().b(&b).get());
                l.class("sentence_wrapped_in_non_ascii_white_space");
                // and such a character alone
                n += check_string(l, w);
            }
            if rng.chance(1, 4) {
                let mut b = s.clone();
                let p = rng.below(b.len() as u64) as usize;
                b[p] = *rng.pick(&[0x80u8, 0xff, 0xc3, 0xe9, b'\t', b' ', 0x7f, 0x01]);
                n += check_string(l, &b);
                l.distinct_hash(Fnv::new().b(&b).get());
            }
        }
        l.op_n("parse entry points", n);
    });
    // wl 5: every number of a sentence replaced by a value congruent to it modulo 2^8 / 2^16 / 2^32 / 2^64 (what a
    // narrowing conversion before the range check would let through), and by the field's neighbours
    run_cases(ctx, &mut rep, 5, ctx.n(4000, 60_000), |l, rng, i| {
        let s = sentence(rng).into_bytes();
        let mut n = 0;
        let mut p = 0;
        while p < s.len() {
            if !s[p].is_ascii_digit() {
                p += 1;
                continue;
            }
            let mut q = p;
            while q < s.len() && s[q].is_ascii_digit() {
                q += 1;
            }
            let v: u128 = std::str::from_utf8(&s[p..q]).unwrap().parse().unwrap_or(0);
            for add in [256u128, 512, 768, 1 << 16, 3 << 16, 1 << 32, 1 << 64, 1 << 31, 1 << 15, 128] {
                let mut r = s[..p].to_vec();
                r.extend((v + add).to_string().as_bytes());
                r.extend(&s[q..]);
                n += check_string(l, &r);
                l.distinct_hash(Fnv::new().b(&r).get());
                l.class("number_congruent_modulo_a_power_of_two");
            }
            p = q;
        }
        l.op_n("parse entry points", n);
        if i % 1000 == 0 {
            l.sample(|| Json::obj().set("sentence", String::from_utf8_lossy(&s).to_string()).set("edits", "each number + {128, 256, 512, 768, 2^15, 2^16, 3*2^16, 2^31, 2^32, 2^64}"));
        }
    });
    if !ctx.quick() {
        // wl 4: all strings of length <= 6 over a 14-letter alphabet
        const A: &[u8] = b"EST015:<>+-,J/";
        let per = 14u64 * 14 * 14;
        let total: u64 = (1..=6u32).map(|k| 14u64.pow(k)).sum();
        run_enum(ctx, &mut rep, 4, (total + per - 1) / per, |l, _rng, i| {
            let mut n = 0;
            for k in 0..per {
                let mut idx = i * per + k;
                if idx >= total {
                    break;
                }
                // decode idx into (length, digits)
                let mut len = 1;
                let mut block = 14u64;
                while idx >= block {
                    idx -= block;
                    len += 1;
                    block *= 14;
                }
                let mut s = vec![0u8; len];
                for p in 0..len {
                    s[p] = A[(idx % 14) as usize];
                    idx /= 14;
                }
                n += check_string(l, &s);
            }
            l.op_n("parse entry points", n);
            l.distinct_enumerated += per;
        });
        rep.exhaustive = true;
        rep.notes.push("exhaustive for strings of length <= 6 over the alphabet E S T 0 1 5 : < > + - , J / and for the listed cross product of grammar options; longer strings are sampled".into());
    }
    rep
}
