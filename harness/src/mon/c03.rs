//! C03 localtime (table): the type at an instant is that of the latest transition <= it.
//!
//! Refuting observations: `find_local_time_type(u)` (owned and borrowed zone) returning a type other
//! than M-zone's linear scan says, an Ok where M-zone says "no type" or the converse;
//! `DateTime::from_timespec` fields != M-cal(u + offset) (the latter through the facade invariant).

use crate::core::{run_cases, Ctx, Fnv, Local, Report};
use crate::facade::{self, E};
use crate::gen::zone::{gen_zone, probe_instants, RuleMode, ZoneCfg};
use crate::model::rule::TypeSpec;
use crate::model::zone::{Fwd, ZoneSpec};
use crate::model::{cal, leap, rule};
use crate::mon::common::{build, note_build_failure};
use crate::util::json::Json;
use crate::util::rng::Rng;

pub fn check_zone(l: &mut Local, z: &ZoneSpec, rng: &mut Rng, max_tr: usize, nrandom: usize) -> u64 {
    let b = match build(z) {
        Ok(b) => b,
        Err(e) => {
            note_build_failure(l, z, &e);
            return 0;
        }
    };
    let r = match b.borrowed() {
        Ok(r) => r,
        Err(e) => {
            note_build_failure(l, z, &e);
            return 0;
        }
    };
    let zm = z.model();
    let n = z.transitions.len();
    // table length parity classes (binary search)
    if n == 0 {
        l.class("empty_table");
    } else if n.is_power_of_two() {
        l.class("table_len_2^k");
    } else if (n + 1).is_power_of_two() {
        l.class("table_len_2^k-1");
    } else if n > 1 && (n - 1).is_power_of_two() {
        l.class("table_len_2^k+1");
    }
    if !z.leaps.is_empty() {
        l.class("leap_table_present");
        if z.leaps.0.windows(2).any(|w| w[1].1 < w[0].1) || z.leaps.0[0].1 < 0 {
            l.class("negative_leap_second");
        }
    }
    let probes = probe_instants(z, rng, max_tr, nrandom);
    let mut calls = 0u64;
    let first_x = if n > 0 { Some(zm.transition_instant(0)) } else { None };
    let last_x = if n > 0 { Some(zm.transition_instant(n - 1)) } else { None };
    for &u in &probes {
        let exp = zm.forward(u);
        let got_owned = facade::lookup(b.tz.as_ref(), u);
        let got_ref = facade::lookup(r, u);
        calls += 2;
        if n > 0 {
            let ui = u as i128;
            if ui < first_x.unwrap() {
                l.class("before_first_transition");
            } else if ui >= last_x.unwrap() {
                l.class(if z.rule.is_some() { "after_last_with_rule" } else { "after_last_without_rule" });
                if ui == last_x.unwrap() {
                    l.class("exactly_on_last_transition");
                }
            } else {
                l.class("between_transitions");
            }
        }
        for (name, got) in [("TimeZone::find_local_time_type", &got_owned), ("TimeZoneRef::find_local_time_type", &got_ref)] {
            match (&exp, got) {
                (Fwd::Unspec, _) => l.unspecified += 1,
                (Fwd::Type(t), Ok(g)) => {
                    if !t.same_as(g) {
                        l.violation("localtime(table): wrong local time type", format!("{}({}) on {}", name, u, z.describe()), format!("{}", t), format!("{}", TypeSpec::from_tz(g)));
                    }
                }
                (Fwd::Type(t), Err(e)) => l.violation("localtime(table): error where a type is in effect", format!("{}({}) on {}", name, u, z.describe()), format!("{}", t), format!("Err({:?})", e)),
                (Fwd::NoType, Err(E::NoAvailableLocalTimeType)) => {}
                (Fwd::NoType, Err(e)) => l.violation("localtime(table): wrong error after the last transition of a zone without rule", format!("{}({}) on {}", name, u, z.describe()), "Err(NoAvailableLocalTimeType)".into(), format!("Err({:?})", e)),
                (Fwd::NoType, Ok(g)) => l.violation("localtime(table): a type reported after the last transition of a zone without rule", format!("{}({}) on {}", name, u, z.describe()), "Err(NoAvailableLocalTimeType)".into(), format!("{}", TypeSpec::from_tz(g))),
            }
        }
        // the resulting local date-time
        if let Fwd::Type(t) = &exp {
            let ns = (u as u32) % 1_000_000_000;
            let shifted = u as i128 + t.off as i128;
            let in_range = shifted >= cal::min_unix() as i128 && shifted <= cal::max_unix() as i128;
            let got = facade::dt_from_timespec(u, ns, r);
            calls += 1;
            match (got, in_range) {
                (Ok(d), true) => {
                    // fields are checked by the facade invariant (C14) against M-cal(u + offset); here: the type
                    if !t.same_as(d.local_time_type()) || d.unix_time() != u {
                        l.violation("localtime(table): DateTime::from_timespec carries the wrong type", format!("DateTime::from_timespec({}, {}) on {}", u, ns, z.describe()), format!("{}", t), facade::fmt_dt(&d));
                    }
                    let c = cal::civil_from_unix(shifted as i64);
                    if d.year() as i64 != c.year || d.month() != c.month || d.month_day() != c.day || d.hour() != c.hour || d.minute() != c.minute || d.second() != c.second {
                        l.violation("localtime(table): local fields are not the UTC calendar of instant + offset", format!("DateTime::from_timespec({}, {}) on {}", u, ns, z.describe()), format!("{}", c), facade::fmt_dt(&d));
                    }
                }
                (Ok(d), false) => l.violation("localtime(table): local date-time outside the calendar range accepted", format!("DateTime::from_timespec({}, {}) on {}", u, ns, z.describe()), "Err".into(), facade::fmt_dt(&d)),
                (Err(e), true) => l.violation("localtime(table): local date-time refused", format!("DateTime::from_timespec({}, {}) on {}", u, ns, z.describe()), format!("{}", cal::civil_from_unix(shifted as i64)), format!("Err({:?})", e)),
                (Err(_), false) => {}
            }
        }
    }
    calls
}

pub fn self_tests() -> Result<(), String> {
    cal::self_test()?;
    if cfg!(miri) {
        // the interpreter is ~10^4 times slower: the model self-tests are run by the native layers of the same check
        return Ok(());
    }
    leap::self_test()?;
    rule::self_test()?;
    crate::model::posix::self_test()?;
    Ok(())
}

fn zone_hash(z: &ZoneSpec) -> u64 {
    let mut h = Fnv::new().i(z.transitions.len() as i64);
    for &(t, i) in z.transitions.iter().take(16) {
        h = h.i(t).i(i as i64);
    }
    for t in &z.types {
        h = h.i(t.off as i64);
    }
    h.i(z.leaps.0.len() as i64).get()
}

pub fn run(ctx: &Ctx) -> Report {
    let mut rep = Report::new("C03");
    rep.rule = "cases = generated zones (0..4097 transitions incl. lengths 2^k-1, 2^k, 2^k+1; strictly increasing times anywhere in i64 incl. i64::MIN/MAX; gaps from 1 s; repeated / no-op type indices; equal offsets; offsets up to +-i32; with/without leap table of both signs; no rule / fixed rule / DST rule consistent with the last transition); \
                per zone the probes are every transition instant -2..+2 (capped at 48 transitions for long tables), the leap records -2..+2, rule instants +-1, i64::MIN/MAX, and random instants. Oracle: M-zone linear scan with M-leap, types carry unique designations so the returned reference identifies the table entry. \
                plus the table-less shorthands TimeZone::utc() and TimeZone::fixed(offset) over the whole i32 offset range. distinct_nontrivial = distinct zones with at least one transition (hash of the table)."
        .into();
    rep.required_classes = vec![
        "empty_table",
        "table_len_2^k",
        "table_len_2^k-1",
        "table_len_2^k+1",
        "leap_table_present",
        "negative_leap_second",
        "leap_record_at_the_top_of_the_i64_range",
        "before_first_transition",
        "between_transitions",
        "after_last_with_rule",
        "after_last_without_rule",
        "exactly_on_last_transition",
        "fixed_zone_constructor",
        "fixed_zone_offset_i32_min_refused",
    ];
    if let Err(e) = self_tests() {
        rep.inconclusive.push(format!("model self-test failed: {}", e));
        return rep;
    }
    let mut cfg = ZoneCfg::lookup();
    if ctx.scale < 1.0 {
        cfg.max_transitions = 40;
    }
    run_cases(ctx, &mut rep, 1, ctx.n(60_000, 2_000_000), |l, rng, i| {
        let z = gen_zone(rng, &cfg);
        let calls = check_zone(l, &z, rng, 48, 10);
        l.op_n("find_local_time_type / from_timespec", calls);
        if !z.transitions.is_empty() {
            l.distinct_hash(zone_hash(&z));
        }
        if i % 5000 == 11 {
            l.sample(|| Json::obj().set("zone", z.describe()));
        }
    });
    // a few long tables probed at every transition
    run_cases(ctx, &mut rep, 2, if ctx.scale < 1.0 { 0 } else { ctx.n(24, 400) }, |l, rng, _| {
        let mut c = ZoneCfg::lookup();
        c.rule = RuleMode::Any;
        let mut z = gen_zone(rng, &c);
        // extend to a long table by prepending transitions
        let want = *rng.pick(&[1023usize, 1024, 1025, 2047, 2048, 2049, 4095, 4096, 4097]);
        if let Some(&(first, _)) = z.transitions.first() {
            let mut t = first;
            let mut pre = vec![];
            while z.transitions.len() + pre.len() < want {
                match t.checked_sub(crate::gen::zone::rand_gap(rng).min(1 << 30)) {
                    Some(nt) => {
                        t = nt;
                        pre.push((t, rng.below(z.types.len() as u64) as usize));
                    }
                    None => break,
                }
            }
            pre.reverse();
            pre.extend(z.transitions.iter().copied());
            z.transitions = pre;
        }
        let calls = check_zone(l, &z, rng, 5000, 50);
        l.op_n("find_local_time_type / from_timespec", calls);
        l.distinct_hash(zone_hash(&z));
    });
    // wl 4: the shorthand constructors of owned zones (no table at all): TimeZone::utc(), TimeZone::fixed(offset)
    run_cases(ctx, &mut rep, 4, ctx.n(2000, 40_000), |l, rng, _| {
        use tz::{LocalTimeType, TimeZone, TimeZoneRef};
        let mut n = 0;
        for _ in 0..ctx.inner(20) {
            let off = match rng.below(4) {
                0 => *rng.pick(&[0, 1, -1, i32::MAX, i32::MIN + 1, i32::MIN, 3600, -3600, 86400, -86400]),
                1 => rng.next() as i32,
                _ => rng.range(-100_000, 100_000) as i32,
            };
            let t = match rng.below(3) {
                0 => rng.i64_any(),
                1 => *rng.pick(&[i64::MIN, i64::MAX, 0, -1, 1]),
                _ => rng.range(-4_000_000_000, 8_000_000_000),
            };
            n += 1;
            match TimeZone::fixed(off) {
                Ok(z) => {
                    l.class("fixed_zone_constructor");
                    if off == i32::MIN {
                        l.violation("localtime(table): TimeZone::fixed accepts the offset i32::MIN", format!("TimeZone::fixed({})", off), "Err".into(), "Ok".into());
                        continue;
                    }
                    let same_as_new = TimeZone::new(vec![], vec![LocalTimeType::with_ut_offset(off).unwrap()], vec![], None).map(|w| w == z).unwrap_or(false);
                    let r = z.as_ref();
                    let shape_ok = r.transitions().is_empty() && r.leap_seconds().is_empty() && r.extra_rule().is_none() && r.local_time_types().len() == 1;
                    let lk = z.find_local_time_type(t).map(|x| (x.ut_offset(), x.is_dst(), x.time_zone_designation().to_string())).ok();
                    if !same_as_new || !shape_ok || lk != Some((off, false, String::new())) {
                        l.violation("localtime(table): TimeZone::fixed(offset) is not the zone with the single type (offset, standard, no designation)", format!("TimeZone::fixed({}) looked up at {}", off, t), format!("({}s,std,-) at every instant", off), format!("same_as_new={} shape_ok={} lookup={:?}", same_as_new, shape_ok, lk));
                    }
                }
                Err(_) => {
                    if off != i32::MIN {
                        l.violation("localtime(table): TimeZone::fixed refuses a valid offset", format!("TimeZone::fixed({})", off), "Ok".into(), "Err".into());
                    } else {
                        l.class("fixed_zone_offset_i32_min_refused");
                    }
                }
            }
            let u = TimeZone::utc();
            let lk = u.find_local_time_type(t).map(|x| (x.ut_offset(), x.is_dst(), x.time_zone_designation().to_string())).ok();
            if u.as_ref() != TimeZoneRef::utc() || lk != Some((0, false, String::new())) || u.find_local_time_type(t).ok() != Some(&LocalTimeType::utc()) {
                l.violation("localtime(table): TimeZone::utc() is not the UTC zone", format!("TimeZone::utc() looked up at {}", t), "LocalTimeType::utc() = (0s,std,-)".into(), format!("{:?}", lk));
            }
            l.distinct_hash(Fnv::new().i(off as i64).i(t).get());
        }
        l.op_n("TimeZone::fixed / TimeZone::utc", 2 * n);
    });
    if !ctx.quick() {
        // one table of 2^20 transitions
        run_cases(ctx, &mut rep, 3, 16, |l, rng, i| {
            let ntypes = 5usize;
            let types: Vec<TypeSpec> = (0..ntypes).map(|k| TypeSpec { off: (k as i32 - 2) * 3600, dst: k % 2 == 1, desig: Some(format!("T{:02}", k)) }).collect();
            let mut t = -(1i64 << 40);
            let mut tr = Vec::with_capacity(1 << 20);
            let mut r2 = Rng::new(12345); // same table in all 16 cases, different probes
            for _ in 0..(1usize << 20) {
                t += 1 + r2.below(100_000) as i64;
                tr.push((t, r2.below(ntypes as u64) as usize));
            }
            let z = ZoneSpec { transitions: tr, types, leaps: Default::default(), rule: None };
            let calls = check_zone(l, &z, rng, 150, 50);
            l.op_n("find_local_time_type / from_timespec", calls);
            l.class("table_of_2^20_transitions");
            if i == 0 {
                l.distinct_hash(zone_hash(&z));
            }
        });
    }
    // wl 7: leap tables whose last record sits at the top of the i64 range (positive and negative last step), zones
    // with a table and with / without a fixed rule: lookups within a few seconds of i64::MAX, where a running sum that
    // saturates or wraps compares differently from the exact one
    run_cases(ctx, &mut rep, 7, ctx.n(400, 4000), |l, rng, _| {
        let mut leaps: Vec<(i64, i32)> = vec![];
        let mut c: i32 = if rng.chance(1, 2) { 1 } else { -1 };
        let mut t: i64 = rng.range(0, 1_000_000);
        for _ in 0..rng.below(4) {
            leaps.push((t, c));
            t += rng.range(2_419_199, 90_000_000);
            c += if rng.chance(1, 2) { 1 } else { -1 };
        }
        if leaps.is_empty() {
            c = if rng.chance(1, 2) { 1 } else { -1 };
        }
        leaps.push((i64::MAX - rng.below(3) as i64, c));
        let types = vec![TypeSpec::new(0, false, Some("AAA")), TypeSpec::new(3600, true, Some("BBB")), TypeSpec::new(-7200, false, Some("CCC"))];
        let last = match rng.below(3) {
            0 => i64::MAX,
            1 => i64::MAX - rng.range(1, 5),
            _ => rng.range(2000, 1 << 40),
        };
        let transitions = vec![(-1000, 1), (1000, 2), (last, 1)];
        let rule = if rng.chance(1, 2) { Some(crate::model::zone::RuleSpec::Fixed(types[1].clone())) } else { None };
        let mut z = ZoneSpec { transitions, types, leaps: crate::model::leap::LeapTable(leaps), rule };
        // the last clause of the constructor's sentence needs the UTC instant of the last transition: where that is
        // not an i64 the clause cannot be evaluated (left open by the statement), so such a zone gets no rule
        let x = z.leaps.switch(last);
        if x > i64::MAX as i128 || x < i64::MIN as i128 {
            z.rule = None;
        }
        let calls = check_zone(l, &z, rng, 8, 2);
        l.class("leap_record_at_the_top_of_the_i64_range");
        l.op_n("find_local_time_type", calls);
        l.distinct_hash(zone_hash(&z));
    });
    rep
}
