//! C10: end-to-end agreement with glibc and CPython zoneinfo on the real IANA database.
//!
//! This monitor has no oracle of its own: it *records* what tz-rs answers (JSONL event log, one part
//! file per case) and the offline checker ref/ref_check.py replays every event against
//! `zoneinfo.ZoneInfo.from_file` and glibc (`TZ=:/abs/path; tzset(); localtime()`), reading the very
//! same vendored files.

use crate::core::{run_cases, run_enum, Ctx, Local, Report};
use crate::facade;
use crate::gen::rule::IANA_FOOTERS;
use crate::model::cal;
use crate::model::leap::LeapTable;
use crate::model::zone::ZoneSpec;
use crate::mon::c08::load_corpus;
use crate::util::json::Json;
use crate::util::rng::Rng;
use std::fmt::Write as _;
use tz::datetime::FoundDateTimeKind;
use tz::{TimeZone, TimeZoneSettings};

const HARD_CASES: [&str; 20] = [
    // the only footer with a minutes field; suffix-shared designations; fixed footers after a fall-back / a no-op
    // last transition; a right/ file with a footer-governed future
    "Pacific/Chatham",
    "America/Adak",
    "Europe/Moscow",
    "Asia/Singapore",
    "Asia/Shanghai",
    "right/America/New_York",
    "Europe/Dublin",
    "Australia/Lord_Howe",
    "Africa/Casablanca",
    "Pacific/Honolulu",
    "right/UTC",
    "America/New_York",
    "Europe/London",
    "Asia/Kolkata",
    "Pacific/Apia",
    "America/Nuuk",
    "Asia/Gaza",
    "right/Europe/Paris",
    "Antarctica/Troll",
    "America/Santiago",
];

fn emit_fwd(out: &mut String, l: &mut Local, blob: &str, path: &str, tz: &TimeZone, leaps: &LeapTable, u: i64, kind: &str) {
    // for files with a leap table the reference (glibc) is asked on the file's own scale
    let lcount = if leaps.is_empty() {
        u as i128
    } else {
        if leaps.is_deleted(u) {
            return;
        }
        leaps.f(u)
    };
    if !leaps.is_empty() {
        // an inserted leap second itself has no UTC instant of its own; glibc renders it as :60 - excluded
        if leaps.0.iter().any(|&(li, _)| li as i128 == lcount || li as i128 + 1 == lcount && false) {
            return;
        }
    }
    match facade::dt_from_timespec(u, 0, tz.as_ref()) {
        Ok(d) => {
            let t = d.local_time_type();
            let _ = writeln!(
                out,
                "{{\"k\":\"fwd\",\"blob\":\"{}\",\"path\":\"{}\",\"kind\":\"{}\",\"t\":{},\"l\":{},\"ok\":true,\"utoff\":{},\"isdst\":{},\"abbr\":\"{}\",\"f\":[{},{},{},{},{},{}]}}",
                blob,
                path,
                kind,
                u,
                lcount,
                t.ut_offset(),
                t.is_dst(),
                t.time_zone_designation(),
                d.year(),
                d.month(),
                d.month_day(),
                d.hour(),
                d.minute(),
                d.second()
            );
        }
        Err(e) => {
            let _ = writeln!(out, "{{\"k\":\"fwd\",\"blob\":\"{}\",\"path\":\"{}\",\"kind\":\"{}\",\"t\":{},\"l\":{},\"ok\":false,\"err\":\"{:?}\"}}", blob, path, kind, u, lcount, e);
        }
    }
    l.evaluations += 1;
}

fn emit_find(out: &mut String, l: &mut Local, blob: &str, path: &str, tz: &TimeZone, leaps: &LeapTable, offsets: &[i32], c: i64) {
    let f = cal::civil_from_unix(c);
    match facade::find(f.year as i32, f.month, f.day, f.hour, f.minute, f.second, 0, tz.as_ref()) {
        Ok(list) => {
            let mut normals = String::new();
            let mut gaps = String::new();
            for k in list.into_inner() {
                match k {
                    FoundDateTimeKind::Normal(d) => {
                        let _ = write!(normals, "{}[{},{}]", if normals.is_empty() { "" } else { "," }, d.unix_time(), d.local_time_type().ut_offset());
                    }
                    FoundDateTimeKind::Skipped { before_transition, after_transition } => {
                        let _ = write!(gaps, "{}[{},{},{}]", if gaps.is_empty() { "" } else { "," }, before_transition.unix_time(), before_transition.local_time_type().ut_offset(), after_transition.local_time_type().ut_offset());
                    }
                }
            }
            // candidates c - o, with their count on the file's own scale (what glibc is asked for right/ files)
            let offs: Vec<String> = offsets
                .iter()
                .filter_map(|o| {
                    let u = c - *o as i64;
                    // last element: 0 when tz-rs has no local time type there (at or after the last transition of a
                    // footer-less file - by design), so that the reference's extrapolation is not held against it
                    let has_type = !matches!(tz.find_local_time_type(u), Err(tz::TzError::NoAvailableLocalTimeType)) as u8;
                    if leaps.is_empty() {
                        Some(format!("[{},{},{},{}]", o, u, u, has_type))
                    } else if leaps.is_deleted(u) || leaps.0.iter().any(|&(li, _)| li as i128 == leaps.f(u)) {
                        None
                    } else {
                        Some(format!("[{},{},{},{}]", o, u, leaps.f(u), has_type))
                    }
                })
                .collect();
            let _ = writeln!(out, "{{\"k\":\"find\",\"blob\":\"{}\",\"path\":\"{}\",\"c\":{},\"f\":[{},{},{},{},{},{}],\"cands\":[{}],\"normal\":[{}],\"gaps\":[{}]}}", blob, path, c, f.year, f.month, f.day, f.hour, f.minute, f.second, offs.join(","), normals, gaps);
        }
        Err(e) => {
            let _ = writeln!(out, "{{\"k\":\"find\",\"blob\":\"{}\",\"path\":\"{}\",\"c\":{},\"err\":\"{:?}\"}}", blob, path, c, e);
        }
    }
    l.evaluations += 1;
}

/// random well-formed TZ descriptions on the sub-language where glibc is authoritative: rule days well
/// inside the year, times 0..24h, whole-second offsets within +-14h
fn rand_tz_string(rng: &mut Rng) -> String {
    let names = [("EST", "EDT"), ("CET", "CEST"), ("AAA", "BBB"), ("NZST", "NZDT"), ("<+03>", "<+04>"), ("<-0330>", "<-0230>")];
    let (a, b) = names[rng.below(names.len() as u64) as usize];
    let std = rng.range(-14 * 4, 14 * 4) * 900;
    let fmt_off = |o: i64| {
        let s = if o < 0 { "-" } else { "" };
        let a = o.abs();
        if a % 3600 == 0 {
            format!("{}{}", s, a / 3600)
        } else if a % 60 == 0 {
            format!("{}{}:{:02}", s, a / 3600, a / 60 % 60)
        } else {
            format!("{}{}:{:02}:{:02}", s, a / 3600, a / 60 % 60, a % 60)
        }
    };
    if rng.chance(1, 5) {
        return format!("{}{}", a, fmt_off(std));
    }
    let dst = if rng.chance(2, 3) { String::new() } else { fmt_off(std - *rng.pick(&[3600i64, 1800, 7200, -3600])) };
    let day = |rng: &mut Rng, early: bool| -> String {
        match rng.below(3) {
            0 => format!("M{}.{}.{}", if early { rng.range(2, 5) } else { rng.range(8, 11) }, rng.range(1, 5), rng.range(0, 6)),
            1 => format!("J{}", if early { rng.range(40, 150) } else { rng.range(220, 330) }),
            _ => format!("{}", if early { rng.range(40, 150) } else { rng.range(220, 330) }),
        }
    };
    let time = |rng: &mut Rng| -> String {
        match rng.below(4) {
            0 => String::new(),
            1 => format!("/{}", rng.range(0, 24)),
            2 => format!("/{}:{:02}", rng.range(0, 23), rng.range(0, 59)),
            _ => format!("/{}:{:02}:{:02}", rng.range(0, 23), rng.range(0, 59), rng.range(0, 59)),
        }
    };
    let north = rng.chance(1, 2);
    let (d1, d2) = (day(rng, north), day(rng, !north));
    format!("{}{}{}{},{}{},{}{}", a, fmt_off(std), b, dst, d1, time(rng), d2, time(rng))
}

pub fn run(ctx: &Ctx) -> Report {
    let mut rep = Report::new("C10");
    rep.rule = "cases = events (file, instant) -> (utoff, isdst, abbreviation, civil fields) and (file, local time) -> found instants recorded from tz-rs and replayed offline against CPython zoneinfo (posix tree) and glibc localtime (posix and right trees) reading the same vendored tzdata 2025b files: every transition -1/0/+1, 300 (thorough: 3000) random instants 1900-2500, far-future instants governed by the footer, every path of the index (1243) is loaded and compared at the first use of each local time type + 3 instants, and searched around its first and its last table transition (whatever their dates), whatever the tier; local times within 3 h of every transition of the table (19th century included) in 15-minute steps and at the exact boundaries; the footer rule's transitions in 2 (quick) / 40 (thorough) random years of 2038-2400 per file, located by bisection, with the instants -1/0/+1 and the local times around them; \
                plus TZ descriptions (IANA footers and random well-formed ones on the sub-language where glibc is authoritative) x 30 instants against glibc's TZ-environment parser. distinct_nontrivial = distinct events recorded."
        .into();
    let dir = match ctx.opts.get("events") {
        Some(d) => d.clone(),
        None => {
            rep.inconclusive.push("no event directory given (--opt events=DIR)".into());
            return rep;
        }
    };
    let (paths, blobs) = match load_corpus(&ctx.corpus) {
        Ok(x) => x,
        Err(e) => {
            rep.inconclusive.push(e);
            return rep;
        }
    };
    // one representative path per blob, preferring right/ names for files that have leap tables
    let idx = std::fs::read_to_string(format!("{}/zoneinfo/index.tsv", ctx.corpus)).unwrap_or_default();
    let hashes: Vec<(String, String)> = idx.lines().filter_map(|l| l.split_once('\t')).map(|(p, h)| (p.to_string(), h.to_string())).collect();
    let mut files: Vec<(String, usize, String)> = vec![]; // (path, blob index, blob hash)
    if ctx.scale < 1.0 {
        let mut rng = Rng::for_case(ctx.seed, 10, 0);
        let mut chosen: Vec<usize> = vec![];
        for hc in HARD_CASES {
            if let Some(k) = paths.iter().position(|(p, _)| p == hc) {
                chosen.push(k);
            }
        }
        for (k, (_, b)) in paths.iter().enumerate() {
            if blobs[*b][4] == b'3' && !chosen.iter().any(|&c| paths[c].1 == *b) {
                chosen.push(k);
            }
        }
        while chosen.len() < (60.0 * ctx.scale.min(1.0)).ceil() as usize + 1 {
            let k = rng.below(paths.len() as u64) as usize;
            if !chosen.iter().any(|&c| paths[c].1 == paths[k].1) {
                chosen.push(k);
            }
        }
        if ctx.scale < 1.0 {
            chosen.truncate((60.0 * ctx.scale).ceil() as usize + 2);
        }
        for k in chosen {
            files.push((paths[k].0.clone(), paths[k].1, hashes[k].1.clone()));
        }
    } else {
        // every path of the index (1243); identical contents are still replayed once per path
        for (k, (p, b)) in paths.iter().enumerate() {
            files.push((p.clone(), *b, hashes[k].1.clone()));
        }
    }
    let _ = std::fs::create_dir_all(&dir);
    run_enum(ctx, &mut rep, 1, files.len() as u64, |l, rng, i| {
        let (path, b, hash) = &files[i as usize];
        let bytes = &blobs[*b];
        let evals_before = l.evaluations;
        let tz = match TimeZone::from_tz_data(bytes) {
            Ok(z) => z,
            Err(e) => {
                l.violation("end-to-end: a file of the IANA database is refused", path.clone(), "Ok".into(), format!("{:?}", facade::tz_err(&e)));
                return;
            }
        };
        let zs = ZoneSpec::from_tz(&tz.as_ref());
        let leaps = zs.leaps.clone();
        let mut out = String::with_capacity(1 << 16);
        let is_right = path.starts_with("right/");
        l.class(if is_right { "file_of_right_tree" } else { "file_of_posix_tree" });
        if zs.rule.is_some() {
            l.class("file_with_footer_rule");
        }
        if bytes[4] == b'3' {
            l.class("file_version_3");
        }
        // forward: every transition -1/0/+1
        for &(t, _) in &zs.transitions {
            let x = leaps.switch(t);
            if x < i64::MIN as i128 + 2 || x > i64::MAX as i128 - 2 {
                continue;
            }
            for d in [-1i64, 0, 1] {
                emit_fwd(&mut out, l, hash, path, &tz, &leaps, x as i64 + d, "transition");
            }
        }
        // random 1900-2500 and far future
        let nrand = ctx.inner(if ctx.quick() { 300 } else { 3000 });
        for _ in 0..nrand {
            emit_fwd(&mut out, l, hash, path, &tz, &leaps, rng.range(-2_208_988_800, 16_725_225_600), "random_1900_2500");
        }
        for _ in 0..ctx.inner(if ctx.quick() { 60 } else { 600 }) {
            emit_fwd(&mut out, l, hash, path, &tz, &leaps, rng.range(4_102_444_800, 16_725_225_600), "far_future");
        }
        // mktime: every path of the index (1243) is loaded and compared at the first use of each local time type + 3 instants, whatever the tier; local times within 3 h of every transition since 1970
        let offsets = zs.offsets();
        let mut nfind = 0;
        for &(t, _) in &zs.transitions {
            let x = leaps.switch(t);
            // every transition of the table, the 19th-century ones too (interpreted slices: since 1970)
            if x > 8_000_000_000 || x < if ctx.scale < 1.0 { 0 } else { -12_000_000_000 } {
                continue;
            }
            let x = x as i64;
            let mut locals: Vec<i64> = vec![];
            for &o in offsets.iter() {
                if o.abs() > 60_000 {
                    continue;
                }
                for d in [-1i64, 0, 1] {
                    locals.push(x + o as i64 + d);
                }
            }
            let base = x + offsets[offsets.len() / 2] as i64;
            let mut s = -10800;
            while s <= 10800 {
                locals.push(base + s);
                s += 900;
            }
            locals.sort();
            locals.dedup();
            for c in locals {
                emit_find(&mut out, l, hash, path, &tz, &leaps, &offsets, c);
                nfind += 1;
            }
        }
        // the future governed by the footer rule: its transitions in a few years after the table, located by
        // bisection over tz-rs' own forward lookups, then searched around like the table transitions
        if zs.rule.is_some() {
            let off_at = |u: i64| tz.find_local_time_type(u).map(|t| t.ut_offset()).ok();
            for _ in 0..(if ctx.quick() { 2 } else { 40 }) {
                let y = rng.range(2038, 2400);
                let start = cal::unix_from_civil(y, 1, 1, 12, 0, 0);
                let mut prev = off_at(start);
                for day in 1..=366i64 {
                    let u = start + day * 86400;
                    let cur = off_at(u);
                    if cur != prev {
                        let (mut lo, mut hi) = (u - 86400, u); // off(lo) == prev, off(hi) == cur
                        while hi - lo > 1 {
                            let mid = lo + (hi - lo) / 2;
                            if off_at(mid) == prev {
                                lo = mid;
                            } else {
                                hi = mid;
                            }
                        }
                        let x = hi;
                        l.class("rule_governed_transition_located");
                        for d in [-1i64, 0, 1] {
                            emit_fwd(&mut out, l, hash, path, &tz, &leaps, x + d, "rule_transition");
                        }
                        let mut locals: Vec<i64> = vec![];
                        for o in [prev, cur].into_iter().flatten() {
                            for d in [-1i64, 0, 1] {
                                locals.push(x + o as i64 + d);
                            }
                        }
                        let base = x + cur.or(prev).unwrap_or(0) as i64;
                        let mut s2 = -7200;
                        while s2 <= 7200 {
                            locals.push(base + s2);
                            s2 += 1800;
                        }
                        locals.push(base + rng.range(-7200, 7200));
                        locals.sort();
                        locals.dedup();
                        for c in locals {
                            emit_find(&mut out, l, hash, path, &tz, &leaps, &offsets, c);
                            nfind += 1;
                            l.class("find_event_in_rule_governed_future");
                        }
                    }
                    prev = cur;
                }
            }
        }
        l.class_n("find_events", nfind);
        let _ = std::fs::write(format!("{}/part-{:05}.jsonl", dir, i), out);
        if i % 200 == 0 {
            l.sample(|| Json::obj().set("file", path.clone()).set("transitions", zs.transitions.len()).set("find_events", nfind));
        }
        l.distinct_enumerated += l.evaluations - evals_before;
    });
    // every path of the index, whatever the tier: the file must load, and one instant per era of the file (each
    // local time type is shown at least once when the table allows it) is compared with the references - catches
    // anything specific to one file of the database (designation tables, versions, footers)
    let all: Vec<(String, usize, String)> = paths.iter().enumerate().map(|(k, (p, b))| (p.clone(), *b, hashes[k].1.clone())).collect();
    let stride_all = if ctx.scale < 1.0 { (1.0 / ctx.scale).ceil() as usize } else { 1 };
    run_enum(ctx, &mut rep, 3, all.len() as u64, |l, rng, i| {
        if i as usize % stride_all != 0 && ctx.scale < 1.0 {
            return;
        }
        let (path, b, hash) = &all[i as usize];
        let bytes = &blobs[*b];
        let tz = match TimeZone::from_tz_data(bytes) {
            Ok(z) => z,
            Err(e) => {
                l.violation("end-to-end: a file of the IANA database is refused", path.clone(), "Ok".into(), format!("{:?}", facade::tz_err(&e)));
                l.evaluations += 1;
                return;
            }
        };
        let zs = ZoneSpec::from_tz(&tz.as_ref());
        let leaps = zs.leaps.clone();
        let mut out = String::new();
        // first transition into each local time type (its designation is then rendered by both references)
        let mut seen: Vec<usize> = vec![];
        for &(t, k) in &zs.transitions {
            if !seen.contains(&k) {
                seen.push(k);
                let x = leaps.switch(t);
                if x > i64::MIN as i128 + 2 && x < i64::MAX as i128 - 2 {
                    emit_fwd(&mut out, l, hash, path, &tz, &leaps, x as i64 + 1, "first_use_of_a_type");
                }
            }
        }
        for u in [rng.range(-2_208_988_800, 2_000_000_000), 1_750_000_000, rng.range(2_200_000_000, 8_000_000_000)] {
            emit_fwd(&mut out, l, hash, path, &tz, &leaps, u, "every_file");
        }
        // mktime around the first and the last table transition of every path, whatever their dates: the interval
        // before the first transition belongs to local time type 0, which no transition refers to, and the last one
        // is where the footer takes over
        let offsets = zs.offsets();
        let mut ends: Vec<i64> = vec![];
        for &(t, _) in zs.transitions.first().into_iter().chain(zs.transitions.last()) {
            let x = leaps.switch(t);
            if x > -12_000_000_000 && x < 12_000_000_000 && !ends.contains(&(x as i64)) {
                ends.push(x as i64);
            }
        }
        for (k, &x) in ends.iter().enumerate() {
            let mut locals: Vec<i64> = vec![];
            for &o in offsets.iter() {
                if o.abs() <= 60_000 {
                    for d in [-1i64, 0, 1] {
                        locals.push(x + o as i64 + d);
                    }
                }
            }
            // the two offsets around the transition, and everything between their readings in 10-minute steps
            let before = tz.find_local_time_type(x - 1).map(|t| t.ut_offset() as i64).unwrap_or(0);
            let after = tz.find_local_time_type(x).map(|t| t.ut_offset() as i64).unwrap_or(before);
            let (lo, hi) = (x + before.min(after) - 1800, x + before.max(after) + 1800);
            let step = ((hi - lo) / 24).max(600);
            let mut c = lo;
            while c <= hi {
                locals.push(c);
                c += step;
            }
            locals.sort();
            locals.dedup();
            for c in locals {
                emit_find(&mut out, l, hash, path, &tz, &leaps, &offsets, c);
                l.class(if k == 0 { "find_event_at_the_first_transition_of_a_file" } else { "find_event_at_the_last_transition_of_a_file" });
            }
        }
        l.class("every_file_of_the_index_loaded");
        let _ = std::fs::write(format!("{}/all-{:05}.jsonl", dir, i), out);
        l.distinct_enumerated += 1;
    });
    // TZ descriptions vs glibc's TZ-environment parser
    let nstr = ctx.n(2000, 20_000);
    run_cases(ctx, &mut rep, 2, (nstr + 99) / 100, |l, rng, i| {
        let mut out = String::new();
        let evals_before = l.evaluations;
        for k in 0..100 {
            let s = if (i * 100 + k) < 95 {
                let f = IANA_FOOTERS[(i * 100 + k) as usize];
                // glibc's environment parser has no RFC 8536 extensions
                if f.contains("/-") || f.contains("/26") || f.contains("/50") {
                    continue;
                }
                f.to_string()
            } else {
                rand_tz_string(rng)
            };
            let settings = TimeZoneSettings::new(&[], |_| Err("no files".into()));
            match settings.parse_posix_tz(&s) {
                Ok(z) => {
                    for _ in 0..30 {
                        let t = rng.range(0, 4_102_444_800);
                        match facade::dt_from_timespec(t, 0, z.as_ref()) {
                            Ok(d) => {
                                let lt = d.local_time_type();
                                let _ = writeln!(out, "{{\"k\":\"str\",\"tz\":{},\"t\":{},\"ok\":true,\"utoff\":{},\"isdst\":{},\"abbr\":\"{}\"}}", Json::Str(s.clone()).to_string(), t, lt.ut_offset(), lt.is_dst(), lt.time_zone_designation());
                            }
                            Err(e) => {
                                let _ = writeln!(out, "{{\"k\":\"str\",\"tz\":{},\"t\":{},\"ok\":false,\"err\":\"{:?}\"}}", Json::Str(s.clone()).to_string(), t, e);
                            }
                        }
                        l.evaluations += 1;
                    }
                    l.class("tz_string_events");
                }
                Err(e) => {
                    l.violation("end-to-end: a well-formed TZ description is refused", s.clone(), "Ok".into(), format!("{:?}", facade::top_err(&e)));
                }
            }
        }
        let _ = std::fs::write(format!("{}/str-{:05}.jsonl", dir, i), out);
        l.distinct_enumerated += l.evaluations - evals_before;
    });
    rep
}
