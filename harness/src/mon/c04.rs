//! C04 localtime (rule): a POSIX DST rule is evaluated correctly at every instant and year.
//!
//! Refuting observation: a lookup on a rule-only zone (constructed, parsed from a TZ description,
//! or from a v3 footer) whose (offset, DST flag, designation) differs from the half of the rule
//! that M-rule's period model selects: DST exactly on [S(y), next E), start inclusive, end exclusive.

use crate::core::{run_cases, run_enum, Ctx, Fnv, Local, Report};
use crate::facade::{self, E};
use crate::gen::rule::{gen_interleaving, iana_alt_rules};
use crate::model::cal;
use crate::model::rule::{AltSpec, Day, RuleClass, RuleTable, TypeSpec};
use crate::util::json::Json;
use crate::util::rng::Rng;
use tz::timezone::{LocalTimeType, TimeZoneRef, TransitionRule};

fn leaf_class(tab: &RuleTable, t: i64, dst: bool) -> &'static str {
    // outcome classes of the decision, computed by the oracle: pattern x position of t relative to
    // the two rule instants of its UTC year x whether the governing period belongs to a neighbour year
    let y = cal::year_of_unix(t);
    let (s, e) = (tab.s(y), tab.e(y));
    let north = tab.class == RuleClass::North;
    let pos = if t < s.min(e) {
        0
    } else if t < s.max(e) {
        1
    } else {
        2
    };
    match (north, pos, dst) {
        (true, 0, false) => "north/before_both/std",
        (true, 0, true) => "north/before_both/dst_inherited_from_previous_year",
        (true, 1, true) => "north/between/dst",
        (true, 1, false) => "north/between/std",
        (true, 2, false) => "north/after_both/std",
        (true, 2, true) => "north/after_both/dst_next_year_period_begun",
        (false, 0, true) => "south/before_both/dst_inherited",
        (false, 0, false) => "south/before_both/std_previous_year_end_late",
        (false, 1, false) => "south/between/std",
        (false, 1, true) => "south/between/dst",
        (false, 2, true) => "south/after_both/dst",
        (false, 2, false) => "south/after_both/std_next_year_end_early",
        _ => "unreachable",
    }
}

pub struct RuleZone {
    pub spec: AltSpec,
    pub types: [LocalTimeType; 2],
    pub rule: Option<TransitionRule>,
}

impl RuleZone {
    pub fn new(a: &AltSpec) -> Result<RuleZone, String> {
        let alt = a.to_tz()?;
        Ok(RuleZone { spec: a.clone(), types: [*alt.std(), *alt.dst()], rule: Some(TransitionRule::Alternate(alt)) })
    }
    pub fn zone(&self) -> TimeZoneRef<'_> {
        TimeZoneRef::new(&[], &self.types, &[], &self.rule).expect("rule-only zone")
    }
}

/// compare one lookup with the period model
#[inline]
fn check_at(l: &mut Local, a: &AltSpec, tab: &RuleTable, tz: TimeZoneRef<'_>, t: i64, how: &'static str) {
    let exp_dst = match tab.is_dst(t) {
        Some(d) => d,
        None => return,
    };
    let exp = if exp_dst { &a.dst } else { &a.std };
    l.class(leaf_class(tab, t, exp_dst));
    match facade::lookup(tz, t) {
        Ok(g) => {
            if !exp.same_as(g) {
                let y = cal::year_of_unix(t);
                l.class(match (tab.class == RuleClass::North, tab.s(y).cmp(&tab.e(y))) {
                    (true, std::cmp::Ordering::Equal) => "violation/north/S=E_in_the_utc_year",
                    (false, std::cmp::Ordering::Equal) => "violation/south/S=E_in_the_utc_year",
                    (true, _) => "violation/north/S!=E",
                    (false, _) => "violation/south/S!=E",
                });
                l.violation(
                    "localtime(rule): wrong half of the rule",
                    format!("find_local_time_type({}) on rule-only zone ({}) {}", t, how, a),
                    format!("{} because S({})={} E({})={} S({})={} E({})={} class {:?}", exp, y, tab.s(y), y, tab.e(y), y + 1, tab.s(y + 1), y - 1, tab.e(y - 1), tab.class),
                    format!("{}", TypeSpec::from_tz(g)),
                );
            }
        }
        Err(e) => l.violation("localtime(rule): error inside the supported year range", format!("find_local_time_type({}) on rule-only zone ({}) {}", t, how, a), format!("{}", exp), format!("Err({:?})", e)),
    }
}

/// S(y) = E(y) in every year: the statement fixes neither "never" nor "always" daylight time (glibc reads such a
/// rule as never, CPython's zoneinfo as always), but under either reading there is no instant where the answer
/// changes, and what is reported is one complete half of the rule.
fn sweep_degenerate(l: &mut Local, a: &AltSpec, tab: &RuleTable, y0: i64, years: i64, how: &'static str, tz: TimeZoneRef<'_>) -> u64 {
    l.class("degenerate_rule_(S=E_every_year)");
    let mut n = 0;
    let mut first: Option<(bool, i64)> = None;
    for y in y0..y0 + years {
        let ny = cal::days_from_civil(y, 1, 1) * 86400;
        let (s, e) = (tab.s(y), tab.e(y));
        for inst in [s, e, ny, s / 2 + tab.s(y + 1) / 2] {
            for d in [-1i64, 0, 1] {
                let t = inst + d;
                n += 1;
                match facade::lookup(tz, t) {
                    Ok(g) => {
                        let half = if a.std.same_as(g) {
                            false
                        } else if a.dst.same_as(g) {
                            true
                        } else {
                            l.violation(
                                "localtime(rule): the type reported is neither half of the rule",
                                format!("find_local_time_type({}) on rule-only zone ({}) {}", t, how, a),
                                format!("{} or {}", a.std, a.dst),
                                format!("{}", TypeSpec::from_tz(g)),
                            );
                            continue;
                        };
                        match first {
                            None => first = Some((half, t)),
                            Some((h0, t0)) if h0 != half => {
                                l.violation(
                                    "localtime(rule): the answer changes although start and end coincide in every year",
                                    format!("find_local_time_type({}) on rule-only zone ({}) {}", t, how, a),
                                    format!("the same half as at {} ({})", t0, if h0 { "dst" } else { "std" }),
                                    format!("{}", TypeSpec::from_tz(g)),
                                );
                                return n;
                            }
                            _ => {}
                        }
                    }
                    Err(e) => l.violation("localtime(rule): error inside the supported year range", format!("find_local_time_type({}) on rule-only zone ({}) {}", t, how, a), format!("{} or {}", a.std, a.dst), format!("Err({:?})", e)),
                }
            }
        }
    }
    n
}

/// all instants of interest for one rule over `years` consecutive years starting at y0
pub fn sweep_rule(l: &mut Local, a: &AltSpec, y0: i64, years: i64, how: &'static str, tz: TimeZoneRef<'_>) -> u64 {
    let tab = RuleTable::new(a, y0 - 4, y0 + years + 4);
    if tab.class == RuleClass::Degenerate {
        return sweep_degenerate(l, a, &tab, y0, years, how, tz);
    }
    if !matches!(tab.class, RuleClass::North | RuleClass::South) {
        return 0;
    }
    let mut n = 0;
    for y in y0..y0 + years {
        let ny = cal::days_from_civil(y, 1, 1) * 86400;
        for inst in [tab.s(y), tab.e(y), ny] {
            for d in [-1i64, 0, 1] {
                check_at(l, a, &tab, tz, inst + d, how);
                n += 1;
            }
        }
        // one instant strictly inside each side
        let (s, e) = (tab.s(y), tab.e(y));
        check_at(l, a, &tab, tz, s / 2 + e / 2, how);
        check_at(l, a, &tab, tz, ny + 86400 * 15, how);
        n += 2;
    }
    n
}

fn rule_classes(l: &mut Local, a: &AltSpec) {
    l.class(["start_Jn", "start_n", "start_Mm.w.d"][a.start.kind()]);
    l.class(["end_Jn", "end_n", "end_Mm.w.d"][a.end.kind()]);
    if a.start_time < 0 || a.end_time < 0 {
        l.class("time_negative");
    }
    if a.start_time > 86400 || a.end_time > 86400 {
        l.class("time_beyond_24h");
    }
    let y = 2001;
    if a.e(y) == a.s(y + 1) || a.s(y) == a.e(y) || a.s(y) == a.e(y + 1) {
        l.class("tie_rule_(coincident_instants)");
    }
    if cal::year_of_unix(a.s(y)) != y || cal::year_of_unix(a.e(y)) != y {
        l.class("rule_instant_in_a_neighbouring_utc_year");
    }
    if matches!(a.start, Day::M(2, 5, _)) || matches!(a.end, Day::M(2, 5, _)) {
        l.class("week_5_of_february");
    }
}

fn rule_hash(a: &AltSpec) -> u64 {
    Fnv::new().b(format!("{}", a).as_bytes()).get()
}

/// v3 TZif file with no transitions and the rule as footer
pub fn v3_file_with_footer(footer: &str, types: &[(i32, bool, &str)]) -> Vec<u8> {
    let mut chars: Vec<u8> = vec![];
    let mut tt: Vec<u8> = vec![];
    for (off, dst, name) in types {
        let idx = chars.len() as u8;
        chars.extend(name.as_bytes());
        chars.push(0);
        tt.extend(off.to_be_bytes());
        tt.push(*dst as u8);
        tt.push(idx);
    }
    let header = |v: u8| {
        let mut h = b"TZif".to_vec();
        h.push(v);
        h.extend([0u8; 15]);
        for c in [0u32, 0, 0, 0, types.len() as u32, chars.len() as u32] {
            h.extend(c.to_be_bytes());
        }
        h
    };
    let mut f = header(b'3');
    f.extend(&tt);
    f.extend(&chars);
    f.extend(header(b'3'));
    f.extend(&tt);
    f.extend(&chars);
    f.push(b'\n');
    f.extend(footer.as_bytes());
    f.push(b'\n');
    f
}

fn posix_time(t: i32) -> String {
    let a = t.unsigned_abs();
    format!("{}{}:{:02}:{:02}", if t < 0 { "-" } else { "" }, a / 3600, a / 60 % 60, a % 60)
}

/// render a rule as a TZ description (canonical spelling; C09 owns the spelling varieties)
pub fn posix_string(a: &AltSpec) -> String {
    let name = |t: &TypeSpec| {
        let d = t.desig.clone().unwrap_or_default();
        if d.bytes().all(|c| c.is_ascii_alphabetic()) {
            d
        } else {
            format!("<{}>", d)
        }
    };
    format!("{}{}{}{},{}/{},{}/{}", name(&a.std), posix_time(-a.std.off), name(&a.dst), posix_time(-a.dst.off), a.start.posix(), posix_time(a.start_time), a.end.posix(), posix_time(a.end_time))
}

pub fn check_rule(l: &mut Local, a: &AltSpec, rng: &mut Rng, years: i64, extremes: bool) {
    let rz = match RuleZone::new(a) {
        Ok(r) => r,
        Err(e) => {
            // the statement's domain is "rules accepted by the rule constructor"; acceptance itself is C11's subject
            l.class("rule_refused_by_constructor_(C11_decides)");
            let _ = e;
            return;
        }
    };
    rule_classes(l, a);
    let y0 = 1600 + rng.below(3) as i64 * 400;
    let mut n = sweep_rule(l, a, y0, years, "constructed", rz.zone());
    if extremes {
        // years at both ends of the i32 range: an error or the right answer, never a wrong one
        for y in [i32::MIN as i64 + 2, i32::MIN as i64 + 3, i32::MAX as i64 - 3, i32::MAX as i64 - 2] {
            let tab = RuleTable::new(a, y - 3, y + 3);
            for inst in [tab.s(y), tab.e(y), cal::days_from_civil(y, 6, 1) * 86400] {
                for d in [-1i64, 0, 1] {
                    let t = inst + d;
                    if t < cal::min_unix() || t > cal::max_unix() {
                        continue;
                    }
                    let ty = cal::year_of_unix(t);
                    if ty < i32::MIN as i64 + 3 || ty > i32::MAX as i64 - 3 {
                        // RuleTable needs the neighbours; the extreme two years are probed for "error or right" below
                        continue;
                    }
                    if let Some(exp_dst) = tab.is_dst(t) {
                        let exp = if exp_dst { &a.dst } else { &a.std };
                        l.class("year_near_i32_extreme");
                        match facade::lookup(rz.zone(), t) {
                            Ok(g) if !exp.same_as(g) => {
                                l.violation("localtime(rule): wrong answer near the end of the year range", format!("find_local_time_type({}) on {}", t, a), format!("{} or an error", exp), format!("{}", TypeSpec::from_tz(g)))
                            }
                            _ => {}
                        }
                        n += 1;
                    }
                }
            }
        }
        for t in [cal::min_unix(), cal::min_unix() + 86400 * 400, cal::max_unix(), cal::max_unix() - 86400 * 400, i64::MIN, i64::MAX] {
            match facade::lookup(rz.zone(), t) {
                Ok(_) if t == i64::MIN || t == i64::MAX => l.violation("localtime(rule): answer outside the calendar range", format!("find_local_time_type({}) on {}", t, a), "Err".into(), "Ok".into()),
                Err(E::OutOfRange) | Ok(_) => {}
                Err(e) => l.violation("localtime(rule): unexpected error kind at the range edge", format!("find_local_time_type({}) on {}", t, a), "Err(OutOfRange) or a type".into(), format!("Err({:?})", e)),
            }
            n += 1;
        }
    }
    l.op_n("find_local_time_type", n);
    l.distinct_hash(rule_hash(a));
}

pub fn run(ctx: &Ctx) -> Report {
    let mut rep = Report::new("C04");
    rep.rule = "cases = DST rules whose yearly instants interleave (north or south class by brute force over 400 years), each swept over 400 consecutive years (40 for most random rules in the quick tier): S(y), E(y) and Jan 1 00:00 UTC, each -1/0/+1, plus one instant inside each side; oracle = period model [S(y), next E). \
                Rules: the 35 IANA DST footers + 8 documented idioms (permanent DST, zero-length period, partial ties) through three routes (constructed / TZ description via TimeZoneSettings / version-3 footer via from_tz_data); random pairs over the 1151 day notations with times in (-7d, 7d) and offsets in (-25h, 26h); tie rules built on purpose (E(y)=S(y+1), S(y)=E(y) in some or all years). \
                distinct_nontrivial = distinct rules swept."
        .into();
    rep.required_classes = vec![
        "north/before_both/std",
        "north/before_both/dst_inherited_from_previous_year",
        "north/between/dst",
        "north/after_both/std",
        "north/after_both/dst_next_year_period_begun",
        "south/before_both/dst_inherited",
        "south/before_both/std_previous_year_end_late",
        "south/between/std",
        "south/after_both/dst",
        "south/after_both/std_next_year_end_early",
        "start_Jn",
        "start_n",
        "start_Mm.w.d",
        "end_Jn",
        "end_n",
        "end_Mm.w.d",
        "time_negative",
        "time_beyond_24h",
        "tie_rule_(coincident_instants)",
        "degenerate_rule_(S=E_every_year)",
        "rule_instant_in_a_neighbouring_utc_year",
        "week_5_of_february",
        "year_near_i32_extreme",
        "route_tz_string",
        "route_v3_footer",
    ];
    if let Err(e) = crate::mon::c03::self_tests() {
        rep.inconclusive.push(format!("model self-test failed: {}", e));
        return rep;
    }
    // wl 1: the IANA rules and idioms, 400 years, three routes
    let iana = iana_alt_rules();
    run_enum(ctx, &mut rep, 1, iana.len() as u64, |l, rng, i| {
        let a = &iana[i as usize];
        check_rule(l, a, rng, ctx.inner(400) as i64, true);
        // route 2: TZ description through TimeZoneSettings (extensions off: only if the description is plain POSIX)
        let s = posix_string(a);
        let plain = a.start_time >= 0 && a.start_time <= 86400 && a.end_time >= 0 && a.end_time <= 86400;
        if plain {
            let settings = tz::TimeZoneSettings::new(&[], |_| Err("no files".into()));
            match settings.parse_posix_tz(&s) {
                Ok(z) => {
                    l.class("route_tz_string");
                    let n = sweep_rule(l, a, 1970, ctx.inner(130) as i64, "TZ description", z.as_ref());
                    l.op_n("find_local_time_type", n);
                }
                Err(e) => l.violation("localtime(rule): IANA rule refused as TZ description", s.clone(), "Ok".into(), format!("{:?}", facade::top_err(&e))),
            }
        }
        // route 3: version-3 footer
        let f = v3_file_with_footer(&s, &[(a.std.off, false, a.std.desig.as_deref().unwrap()), (a.dst.off, true, a.dst.desig.as_deref().unwrap())]);
        match tz::TimeZone::from_tz_data(&f) {
            Ok(z) => {
                l.class("route_v3_footer");
                let n = sweep_rule(l, a, 1970, ctx.inner(130) as i64, "v3 footer", z.as_ref());
                l.op_n("find_local_time_type", n);
            }
            Err(e) => l.violation("localtime(rule): rule refused as version-3 footer", s.clone(), "Ok".into(), format!("{:?}", facade::tz_err(&e))),
        }
        if i % 9 == 0 {
            l.sample(|| Json::obj().set("rule", format!("{}", a)).set("tz_string", s.clone()).set("class", format!("{:?}", a.class())).set("S(2024)", a.s(2024)).set("E(2024)", a.e(2024)));
        }
    });
    // wl 2: random + tie rules
    let years_full = ctx.inner(400) as i64;
    run_cases(ctx, &mut rep, 2, ctx.n(30_000, 400_000), |l, rng, i| {
        let (mut a, _) = gen_interleaving(rng);
        let years = if ctx.quick() && i % 8 != 0 { 40.min(years_full) } else { years_full };
        check_rule(l, &a, rng, years, i % 16 == 0);
        // the other two routes for random rules as well (when the rule can be written as a TZ description)
        if i % 4 == 0 {
            a.std.off = a.std.off.clamp(-89999, 89999);
            a.dst.off = a.dst.off.clamp(-89999, 89999);
            if crate::gen::rule::accepted_by_statement(&a) && matches!(a.class(), RuleClass::North | RuleClass::South) {
                let s = posix_string(&a);
                let f = v3_file_with_footer(&s, &[(a.std.off, false, a.std.desig.as_deref().unwrap()), (a.dst.off, true, a.dst.desig.as_deref().unwrap())]);
                match tz::TimeZone::from_tz_data(&f) {
                    Ok(z) => {
                        l.class("route_v3_footer_random_rule");
                        let n = sweep_rule(l, &a, 1990, 12.min(years_full), "v3 footer", z.as_ref());
                        l.op_n("find_local_time_type", n);
                    }
                    Err(e) => l.violation("localtime(rule): rule the statement accepts refused as version-3 footer", s.clone(), "Ok".into(), format!("{:?}", facade::tz_err(&e))),
                }
                let plain = a.start_time >= 0 && a.start_time <= 89999 && a.end_time >= 0 && a.end_time <= 89999;
                if plain {
                    let settings = tz::TimeZoneSettings::new(&[], |_| Err("no files".into()));
                    match settings.parse_posix_tz(&s) {
                        Ok(z) => {
                            l.class("route_tz_string_random_rule");
                            let n = sweep_rule(l, &a, 1990, 12.min(years_full), "TZ description", z.as_ref());
                            l.op_n("find_local_time_type", n);
                        }
                        Err(e) => l.violation("localtime(rule): rule the statement accepts refused as TZ description", s.clone(), "Ok".into(), format!("{:?}", facade::top_err(&e))),
                    }
                }
            }
        }
    });
    rep
}
