//! C18: text rendering is ISO-8601-like, unambiguous and denotes the same instant/offset.
//!
//! Refuting observations: `to_string()` not matching M-text's grammar; fields / ns / offset read
//! back differing from the getters; `Z` <=> offset 0 violated; `:SS` present <=> offset not a whole
//! number of minutes.

use crate::core::{run_cases, run_enum, Ctx, Fnv, Local, Report};
use crate::facade;
use crate::model::{cal, text};
use crate::util::json::Json;
use tz::{DateTime, LocalTimeType, UtcDateTime};

#[allow(clippy::too_many_arguments)]
fn judge(l: &mut Local, s: &str, what: String, y: i64, mo: u8, d: u8, h: u8, mi: u8, sec: u8, ns: u32, off: i32) {
    match text::parse(s) {
        Err(e) => l.violation("text rendering: does not match the grammar", what, "^(-?[0-9]+)-MM-DDTHH:MM:SS.nnnnnnnnn(Z|[+-]HH+:MM(:SS)?)$".into(), format!("{:?}: {}", s, e)),
        Ok(p) => {
            let fields_ok = p.year == y && p.month == mo as u32 && p.day == d as u32 && p.hour == h as u32 && p.minute == mi as u32 && p.second == sec as u32 && p.nanos == ns;
            if !fields_ok {
                l.violation("text rendering: fields read back differ from the value", what.clone(), format!("{}-{:02}-{:02}T{:02}:{:02}:{:02}.{:09}", y, mo, d, h, mi, sec, ns), format!("{:?}", s));
            }
            match p.offset {
                None => {
                    if off != 0 {
                        l.violation("text rendering: Z printed for a non-zero offset", what.clone(), format!("offset {}", off), format!("{:?}", s));
                    }
                }
                Some(v) => {
                    if off == 0 {
                        l.violation("text rendering: numeric offset printed for offset zero (Z expected)", what.clone(), "Z".into(), format!("{:?}", s));
                    }
                    if v != off as i64 {
                        l.violation("text rendering: offset read back differs from the value", what.clone(), format!("offset {}", off), format!("{:?} = {}", s, v));
                    }
                    if p.offset_has_seconds != (off as i64 % 60 != 0) {
                        l.violation("text rendering: :SS of the offset must be present exactly when the offset is not a whole number of minutes", what.clone(), format!("offset {}", off), format!("{:?}", s));
                    }
                }
            }
        }
    }
    // classes from the input
    if off == 0 {
        l.class("offset_zero_Z");
    } else {
        if off.unsigned_abs() < 60 {
            l.class("offset_below_one_minute");
        } else if off.unsigned_abs() < 3600 {
            l.class("offset_below_one_hour");
        }
        if off < 0 {
            l.class("offset_negative");
        }
        if off % 60 != 0 {
            l.class("offset_with_seconds");
        }
        if off.unsigned_abs() >= 360000 {
            l.class("offset_hours_3+_digits");
        }
    }
    if y < 0 {
        l.class("year_negative");
    }
    if (0..1000).contains(&y) {
        l.class("year_fewer_than_4_digits");
    }
    if y.abs() >= 10000 {
        l.class("year_more_than_4_digits");
    }
    if sec == 60 {
        l.class("second_60");
    }
}

fn render<T: std::fmt::Display>(l: &mut Local, v: &T, what: impl Fn() -> String) -> Option<String> {
    use std::fmt::Write;
    let mut s = String::new();
    match write!(s, "{}", v) {
        Ok(()) => Some(s),
        Err(_) => {
            l.violation("text rendering: a valid value has no text (Display returned an error)", what(), "a text".into(), format!("fmt::Error after {:?}", s));
            None
        }
    }
}

/// the same UTC offset carried by four different local time types: rendering depends on the offset only
pub fn ltt_variant(l: &mut Local, off: i32, k: u64) -> LocalTimeType {
    let v = match k % 4 {
        0 => LocalTimeType::with_ut_offset(off),
        1 => LocalTimeType::new(off, true, None),
        2 => LocalTimeType::new(off, false, Some(b"GMT")),
        _ => LocalTimeType::new(off, true, Some(b"+00")),
    };
    if off == 0 && k % 4 != 0 {
        l.class("offset_zero_type_with_designation_or_dst_flag");
    }
    v.unwrap_or_else(|_| LocalTimeType::with_ut_offset(off).unwrap())
}

pub fn check_dt(l: &mut Local, dt: &DateTime) {
    let s = match render(l, dt, || facade::fmt_dt(dt)) {
        Some(s) => s,
        None => return,
    };
    judge(l, &s, format!("{}.to_string()", facade::fmt_dt(dt)), dt.year() as i64, dt.month(), dt.month_day(), dt.hour(), dt.minute(), dt.second(), dt.nanoseconds(), dt.local_time_type().ut_offset());
}

pub fn check_utc(l: &mut Local, dt: &UtcDateTime) {
    let s = match render(l, dt, || facade::fmt_utc(dt)) {
        Some(s) => s,
        None => return,
    };
    judge(l, &s, format!("{}.to_string()", facade::fmt_utc(dt)), dt.year() as i64, dt.month(), dt.month_day(), dt.hour(), dt.minute(), dt.second(), dt.nanoseconds(), 0);
}

pub const OFFSETS: [i32; 40] = [
    0,
    1,
    -1,
    59,
    -59,
    60,
    -60,
    61,
    -61,
    3599,
    -3599,
    3600,
    -3600,
    3601,
    -3601,
    86399,
    -86399,
    86400,
    -86400,
    35999,
    36000,
    -36000,
    359999,
    360000,
    -360000,
    360001,
    3599999,
    3600000,
    -3600060,
    i32::MAX,
    i32::MIN + 1,
    i32::MAX - 59,
    -(i32::MAX - 7),
    19800,
    -12600,
    20700,
    45900,
    -34200,
    1800,
    -1800,
];

pub const YEARS: [i32; 22] = [0, 1, -1, 9, -9, 10, -10, 99, 100, 999, 1000, -999, -1000, 9999, -9999, 10000, -10000, 1970, 2024, i32::MAX, i32::MIN, 123456789];

pub fn run(ctx: &Ctx) -> Report {
    let mut rep = Report::new("C18");
    rep.rule = "cases = date-time values (UtcDateTime and DateTime, built through every constructor) whose to_string() is read back by M-text (an independent regular-grammar reader) and compared with the getters. \
                Enumerated: 22 years (0, +-1, +-9, +-10, +-9999, +-10000, i32 extremes...) x 40 offsets (0, +-1, +-59, +-60, +-61, +-3599..+-3601, +-86399, 100h/1000h boundaries, i32 extremes, real-world half/quarter-hour zones) x field corners; \
                every offset is carried by four local time types (plain, DST flag set, with a designation, both): the rendering depends on the offset only, in particular Z at offset 0; random values from from_timespec_and_local with random i32 offsets. distinct_nontrivial = distinct (instant, offset, ns) triples."
        .into();
    rep.required_classes = vec![
        "offset_zero_Z",
        "offset_zero_type_with_designation_or_dst_flag",
        "offset_below_one_minute",
        "offset_below_one_hour",
        "offset_negative",
        "offset_with_seconds",
        "offset_hours_3+_digits",
        "year_negative",
        "year_fewer_than_4_digits",
        "year_more_than_4_digits",
        "second_60",
    ];
    if text::parse("2000-01-01T00:00:00.123456789Z").is_err()
        || text::parse("-5-01-01T00:00:00.000000000+00:00:01").map(|p| p.offset) != Ok(Some(1))
        || text::parse("02000-01-01T00:00:00.000000000Z").is_ok()
        || text::parse("2000-1-01T00:00:00.000000000Z").is_ok()
        || text::parse("2000-01-01T00:00:00.000000000+1:00").is_ok()
        || text::parse("2000-01-01T00:00:00.000000000+001:00").is_ok()
        || text::parse("2000-01-01T00:00:00.000000000+596523:14:07").map(|p| p.offset) != Ok(Some(i32::MAX as i64))
    {
        rep.inconclusive.push("M-text self-test failed".into());
        return rep;
    }
    // wl 1: grid years x offsets x field corners through DateTime::new and UtcDateTime::new
    let corners: [(u8, u8, u8, u8, u8, u32); 9] = [
        (1, 1, 0, 0, 0, 0),
        (12, 31, 23, 59, 59, 999_999_999),
        (2, 28, 9, 9, 9, 9),
        (10, 10, 10, 10, 10, 100_000_000),
        (6, 30, 23, 59, 60, 1),
        (9, 1, 1, 1, 1, 10),
        (12, 31, 23, 59, 60, 999_999_999),
        (1, 1, 0, 0, 60, 0),
        (12, 31, 23, 58, 60, 7),
    ];
    run_enum(ctx, &mut rep, 1, (YEARS.len() * OFFSETS.len()) as u64, |l, _rng, i| {
        let y = YEARS[i as usize / OFFSETS.len()];
        let off = OFFSETS[i as usize % OFFSETS.len()];
        let mut n = 0;
        for (ci, (mo, d, h, mi, s, ns)) in corners.into_iter().enumerate() {
            for k in 0..4u64 {
                if k != 0 && off != 0 && (ci as u64 + i) % 4 != k {
                    continue; // every variant at offset 0, one other variant per corner elsewhere
                }
                let ltt = ltt_variant(l, off, k);
                if let Ok(dt) = facade::dt_new(y, mo, d, h, mi, s, ns, ltt) {
                    check_dt(l, &dt);
                    n += 1;
                    if i % 97 == 5 && mo == 12 && k == 0 {
                        l.sample(|| Json::obj().set("value", facade::fmt_dt(&dt)).set("to_string", dt.to_string()));
                    }
                }
            }
            if let Ok(u) = facade::utc_new(y, mo, d, h, mi, s, ns) {
                check_utc(l, &u);
                n += 1;
            }
        }
        l.op_n("to_string", n);
        l.distinct_enumerated += n;
    });
    // wl 2: random instants x random offsets through from_timespec_and_local / from_timespec / from_total_nanoseconds
    let per = ctx.inner(500);
    run_cases(ctx, &mut rep, 2, ctx.n(10_000, 300_000), |l, rng, _| {
        let mut n = 0;
        for _ in 0..per {
            let off = match rng.below(5) {
                4 => 0,
                0 => *rng.pick(&OFFSETS),
                1 => rng.range(-100_000, 100_000) as i32,
                2 => (rng.range(-26 * 4, 26 * 4) * 900) as i32,
                _ => (rng.next() as i32).max(i32::MIN + 1),
            };
            let t = match rng.below(3) {
                0 => rng.range(cal::min_unix(), cal::max_unix()),
                1 => rng.range(-5_000_000_000, 5_000_000_000),
                _ => rng.range(-70_000_000_000, 260_000_000_000),
            };
            let ns = if rng.chance(1, 4) { *rng.pick(&[0u32, 1, 10, 999_999_999, 100_000_000, 123_456_789]) } else { rng.below(1_000_000_000) as u32 };
            let ltt = ltt_variant(l, off, rng.below(4));
            if let Ok(dt) = facade::dt_from_timespec_and_local(t, ns, ltt) {
                check_dt(l, &dt);
                n += 1;
            }
            if let Ok(u) = facade::utc_from_timespec(t, ns) {
                check_utc(l, &u);
                n += 1;
            }
            l.distinct_hash(Fnv::new().i(t).i(off as i64).i(ns as i64).get());
        }
        l.op_n("to_string", n);
    });
    rep
}
