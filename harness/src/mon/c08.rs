//! C08: TZif decoding is faithful - a well-formed v1/v2/v3 file yields exactly its zone.
//!
//! Refuting observations: `from_tz_data(write(z, version))` != `TimeZone::new(parts of z)` (via ==
//! and via the accessors); a file that M-tzif's independent decoder marks MustFail being accepted,
//! or Must(z) being refused or decoded to something else. Corruptions: only Ok/Err is compared, the
//! histogram of error variants goes to the evidence.

use crate::core::{run_cases, run_enum, Ctx, Expect, Fnv, Local, Report};
use crate::facade::{tz_err, E};
use crate::gen::zone::{gen_zone, RuleMode, ZoneCfg};
use crate::model::rule::TypeSpec;
use crate::model::tzif::{self, block_from_zone, Block, File};
use crate::model::zone::{RuleSpec, ZoneSpec};
use crate::mon::c04::posix_string;
use crate::util::json::Json;
use crate::util::rng::Rng;
use std::collections::BTreeMap;
use tz::TimeZone;

pub fn load_corpus(dir: &str) -> Result<(Vec<(String, usize)>, Vec<Vec<u8>>), String> {
    let idx = std::fs::read_to_string(format!("{}/zoneinfo/index.tsv", dir)).map_err(|e| format!("corpus index: {}", e))?;
    let mut blobs: Vec<Vec<u8>> = vec![];
    let mut by_hash: BTreeMap<String, usize> = BTreeMap::new();
    let mut paths = vec![];
    for (n, line) in idx.lines().enumerate() {
        if cfg!(miri) && n % 100 != 0 {
            continue; // file I/O is very slow under the interpreter: every 100th path is enough for a slice
        }
        let (p, h) = line.split_once('\t').ok_or("bad index line")?;
        let k = match by_hash.get(h) {
            Some(&k) => k,
            None => {
                let b = std::fs::read(format!("{}/zoneinfo/blobs/{}.tzif", dir, h)).map_err(|e| format!("blob {}: {}", h, e))?;
                blobs.push(b);
                by_hash.insert(h.to_string(), blobs.len() - 1);
                blobs.len() - 1
            }
        };
        paths.push((p.to_string(), k));
    }
    Ok((paths, blobs))
}

fn posix_time(t: i32) -> String {
    let a = t.unsigned_abs();
    format!("{}{}:{:02}:{:02}", if t < 0 { "-" } else { "" }, a / 3600, a / 60 % 60, a % 60)
}

/// TZ description of a rule, if it can be written at all; second value: needs RFC 8536 extensions
pub fn footer_text(r: &RuleSpec) -> Option<(String, bool)> {
    let expressible = |t: &TypeSpec| t.desig.is_some() && t.off.abs() <= 89999;
    match r {
        RuleSpec::Fixed(t) => {
            if !expressible(t) || t.dst {
                return None;
            }
            let d = t.desig.clone().unwrap();
            let name = if d.bytes().all(|c| c.is_ascii_alphabetic()) { d } else { format!("<{}>", d) };
            Some((format!("{}{}", name, posix_time(-t.off)), false))
        }
        RuleSpec::Alt(a) => {
            if !expressible(&a.std) || !expressible(&a.dst) || a.std.dst || !a.dst.dst {
                return None;
            }
            let ext = a.start_time < 0 || a.end_time < 0 || a.start_time > 89999 || a.end_time > 89999;
            Some((posix_string(a), ext))
        }
    }
}

fn hist(l: &mut Local, e: E) {
    l.class(match e {
        E::FileEof => "error/UnexpectedEof",
        E::InvalidMagicNumber => "error/InvalidMagicNumber",
        E::UnsupportedTzFileVersion => "error/UnsupportedTzFileVersion",
        E::InvalidHeader => "error/InvalidHeader",
        E::InvalidFooter => "error/InvalidFooter",
        E::InvalidDstIndicator => "error/InvalidDstIndicator",
        E::InvalidTimeZoneDesignationCharIndex => "error/InvalidTimeZoneDesignationCharIndex",
        E::InvalidStdWallUtLocal => "error/InvalidStdWallUtLocal",
        E::RemainingDataV1 => "error/RemainingDataV1",
        E::FileUtf8 => "error/Utf8",
        E::InvalidUtcOffset | E::InvalidTimeZoneDesignationLength | E::InvalidTimeZoneDesignationChar => "error/LocalTimeType",
        E::NoLocalTimeType | E::InvalidLocalTimeTypeIndex | E::InvalidTransition | E::InvalidLeapSecond | E::InconsistentExtraRule => "error/TimeZone",
        E::OutOfRange => "error/OutOfRange",
        _ => "error/TzString_or_rule",
    });
}

fn short(bytes: &[u8]) -> String {
    let hex: String = bytes.iter().take(96).map(|b| format!("{:02x}", b)).collect();
    format!("{} bytes: {}{}", bytes.len(), hex, if bytes.len() > 96 { "..." } else { "" })
}

/// the differential step: independent decoder vs from_tz_data
pub fn compare(l: &mut Local, bytes: &[u8], label: &str) -> Expect<ZoneSpec> {
    let exp = tzif::decode(bytes);
    let got = TimeZone::from_tz_data(bytes);
    crate::facade::ev("TimeZone::from_tz_data", [bytes.len() as i64, 0, 0, 0], got.is_ok(), 0);
    match (&exp, &got) {
        (Expect::Unspec, _) => l.unspecified += 1,
        (Expect::Must(z), Ok(tz)) => {
            let seen = ZoneSpec::from_tz(&tz.as_ref());
            if seen != *z {
                l.violation("TZif decoding: decoded zone differs from the zone the file encodes", format!("[{}] {}", label, short(bytes)), z.describe(), seen.describe());
            }
            // == against the zone built from the expected parts
            match z.to_tz() {
                Ok(built) => {
                    if built != *tz {
                        l.violation("TZif decoding: from_tz_data(..) != TimeZone::new(expected parts)", format!("[{}] {}", label, short(bytes)), z.describe(), seen.describe());
                    }
                }
                Err(e) => l.violation("TZif decoding: expected parts refused by TimeZone::new although the file was accepted", format!("[{}] {}", label, short(bytes)), z.describe(), e),
            }
        }
        (Expect::Must(z), Err(e)) => l.violation("TZif decoding: well-formed file refused", format!("[{}] {}", label, short(bytes)), z.describe(), format!("Err({:?})", tz_err(e))),
        (Expect::MustFail, Ok(tz)) => l.violation("TZif decoding: malformed file accepted", format!("[{}] {}", label, short(bytes)), "Err".into(), ZoneSpec::from_tz(&tz.as_ref()).describe()),
        (Expect::MustFail, Err(e)) => hist(l, tz_err(e)),
    }
    exp
}

fn decoy_block(rng: &mut Rng) -> Block {
    // different, valid data for the 32-bit block of a v2+ file
    let n = rng.below(4) as usize;
    Block {
        transitions: (0..n).map(|k| (k as i64 * 1000 + 5, 0)).collect(),
        types: vec![(rng.range(-3600, 3600) as i32, 0, 0)],
        chars: b"DCY\0".to_vec(),
        leaps: if rng.chance(1, 2) { vec![(78796800, 1)] } else { vec![] },
        isstd: vec![],
        isut: vec![],
    }
}

pub struct Made {
    pub file: File,
    pub expect: Expect<ZoneSpec>,
    pub classes: Vec<&'static str>,
}

/// encode a generated zone; returns the file and what it must decode to
pub fn make_file(z: &ZoneSpec, version: u8, rng: &mut Rng) -> Option<Made> {
    let mut classes: Vec<&'static str> = vec![];
    let overlap = rng.chance(1, 2);
    let mut b = block_from_zone(z, overlap)?;
    if b.chars.windows(1).count() > 0 && overlap {
        // overlapping when some index points inside another string
        let starts: Vec<usize> = std::iter::once(0).chain(b.chars.iter().enumerate().filter(|(_, c)| **c == 0).map(|(i, _)| i + 1)).collect();
        if b.types.iter().any(|t| !starts.contains(&(t.2 as usize))) {
            classes.push("overlapping_designations");
        }
    }
    if z.types.iter().any(|t| t.desig.is_none()) {
        classes.push("empty_designation");
    }
    if b.transitions.iter().any(|t| t.1 >= 128) {
        classes.push("file_with_transition_to_type_index_128_or_more");
    }
    if b.types.len() == 256 {
        classes.push("file_with_256_types");
    }
    // unreferenced filler strings before / after the referenced designations: indices are single octets, the
    // table itself may be longer than 256 octets and a designation may start at <= 255 and end after it
    if rng.chance(1, 4) {
        let max_idx = b.types.iter().map(|t| t.2 as usize).max().unwrap_or(0);
        let room = 255 - max_idx;
        let pre = match rng.below(3) {
            0 => room.saturating_sub(rng.below(7) as usize),
            1 => rng.below(room as u64 + 1) as usize,
            _ => 0,
        };
        let post = match rng.below(3) {
            0 => 0,
            1 => rng.below(40) as usize,
            _ => 200 + rng.below(400) as usize,
        };
        let filler = |n: usize| -> Vec<u8> {
            // NUL-terminated filler strings: "PAD\0PAD\0...", the remainder as NULs
            let mut v = vec![];
            while v.len() + 4 <= n {
                v.extend(b"PAD\0");
            }
            while v.len() < n {
                v.push(0);
            }
            v
        };
        let mut chars = filler(pre);
        chars.extend(&b.chars);
        chars.extend(filler(post));
        for t in b.types.iter_mut() {
            t.2 = (t.2 as usize + pre) as u8;
        }
        b.chars = chars;
        if b.chars.len() > 256 {
            classes.push("designation_table_longer_than_256");
            let crosses = b.types.iter().any(|t| {
                let i = t.2 as usize;
                let end = i + b.chars[i..].iter().position(|c| *c == 0).unwrap_or(0);
                end >= 256
            });
            if crosses {
                classes.push("designation_ends_after_octet_255");
            }
        }
    }
    // indicator vectors
    match rng.below(4) {
        0 => {}
        1 => {
            b.isstd = (0..b.types.len()).map(|_| rng.below(2) as u8).collect();
            classes.push("isstd_only");
        }
        2 => {
            b.isut = vec![0; b.types.len()];
            classes.push("isut_only_(all_zero)");
        }
        _ => {
            let pairs: Vec<(u8, u8)> = (0..b.types.len()).map(|_| *rng.pick(&[(0u8, 0u8), (1, 0), (1, 1)])).collect();
            b.isstd = pairs.iter().map(|p| p.0).collect();
            b.isut = pairs.iter().map(|p| p.1).collect();
            classes.push("isstd_and_isut");
        }
    }
    if !z.leaps.is_empty() {
        classes.push("leap_records_present");
    }
    if version == 0 {
        if !z.transitions.iter().all(|t| t.0 >= i32::MIN as i64 && t.0 <= i32::MAX as i64) || !z.leaps.0.iter().all(|t| t.0 <= i32::MAX as i64) {
            return None;
        }
        let mut expect = z.clone();
        expect.rule = None;
        classes.push("v1");
        return Some(Made { file: File { version: 0, v1: b, v2: None, footer: None }, expect: Expect::Must(expect), classes });
    }
    classes.push(if version == b'2' { "v2" } else { "v3" });
    let (footer, expect) = match &z.rule {
        None => (b"\n\n".to_vec(), Expect::Must(z.clone())),
        Some(r) => {
            let (text, ext) = footer_text(r)?;
            let mut f = vec![b'\n'];
            f.extend(text.as_bytes());
            f.push(b'\n');
            if ext {
                if version == b'3' {
                    classes.push("extension_used_in_v3_footer");
                } else {
                    classes.push("extension_footer_refused_in_v2");
                }
            }
            (f, if ext && version != b'3' { Expect::MustFail } else { Expect::Must(z.clone()) })
        }
    };
    Some(Made { file: File { version, v1: decoy_block(rng), v2: Some(b), footer: Some(footer) }, expect, classes })
}

fn check_made(l: &mut Local, m: &Made, label: &str) {
    let bytes = m.file.write();
    let model = compare(l, &bytes, label);
    // the writer's intent and the independent decoder must agree, otherwise the oracle is inconsistent
    let consistent = match (&m.expect, &model) {
        (Expect::Must(a), Expect::Must(b)) => a == b,
        (Expect::MustFail, Expect::MustFail) => true,
        (_, Expect::Unspec) => true,
        _ => false,
    };
    if !consistent {
        l.harness_errors.push(format!("M-tzif writer and decoder disagree on [{}] {}: writer expects {:?}, decoder says {:?}", label, short(&bytes), m.expect.clone(), model));
    }
    for c in &m.classes {
        l.class(c);
    }
}

/// every single-field corruption of the named kinds
pub fn corruptions(f: &File, rng: &mut Rng) -> Vec<(&'static str, Vec<u8>)> {
    let good = f.write();
    let mut out: Vec<(&'static str, Vec<u8>)> = vec![];
    let second_header = if f.v2.is_some() {
        let mut only_v1 = vec![];
        let f1 = File { version: f.version, v1: f.v1.clone(), v2: None, footer: None };
        only_v1.extend(f1.write());
        Some(only_v1.len())
    } else {
        None
    };
    // magic, version
    for (k, v) in [(0usize, b't'), (3, b'F'), (1, 0u8)] {
        let mut b = good.clone();
        b[k] = v;
        out.push(("bad_magic", b));
    }
    for v in [b'1', b'4', 1u8, b'0', 0xff, if f.version == 0 { b'2' } else { 0 }] {
        let mut b = good.clone();
        b[4] = v;
        out.push(("version_byte_changed_in_first_header", b));
    }
    // each count +-1 / hostile, in the header that governs
    let hdr = second_header.unwrap_or(0);
    for field in 0..6 {
        for delta in [1i64, -1, 255, i32::MAX as i64, u32::MAX as i64] {
            let p = hdr + 20 + field * 4;
            let cur = u32::from_be_bytes([good[p], good[p + 1], good[p + 2], good[p + 3]]) as i64;
            let nv = if delta > 1 { delta } else { cur + delta };
            if nv < 0 || nv == cur {
                continue;
            }
            let mut b = good.clone();
            b[p..p + 4].copy_from_slice(&(nv as u32).to_be_bytes());
            out.push(("header_count_changed", b));
        }
    }
    if let Some(h) = second_header {
        // counts of the first header as well (the block to skip gets another size)
        for field in 0..6 {
            let p = 20 + field * 4;
            let cur = u32::from_be_bytes([good[p], good[p + 1], good[p + 2], good[p + 3]]);
            let mut b = good.clone();
            b[p..p + 4].copy_from_slice(&(cur + 1).to_be_bytes());
            out.push(("first_header_count_changed", b));
        }
        for v in [b'1', b'4', 0u8, if f.version == b'2' { b'3' } else { b'2' }] {
            let mut b = good.clone();
            b[h + 4] = v;
            out.push(("version_byte_changed_in_second_header", b));
        }
        let mut b = good.clone();
        b[h] = b'X';
        out.push(("bad_magic_in_second_header", b));
    }
    // truncation at every block boundary and one byte around it
    for p in f.boundaries() {
        for q in [p.saturating_sub(1), p, p + 1] {
            if q < good.len() {
                out.push(("truncated", good[..q].to_vec()));
            }
        }
    }
    // trailing byte
    let mut b = good.clone();
    b.push(if rng.chance(1, 2) { 0 } else { b'\n' });
    out.push((if f.v2.is_none() { "trailing_byte_after_v1" } else { "trailing_byte_after_footer" }, b));
    // block-level corruptions through the writer
    let gov = |f: &File| if f.v2.is_some() { f.v2.clone().unwrap() } else { f.v1.clone() };
    let with = |f: &File, nb: Block| {
        let mut g = f.clone();
        if g.v2.is_some() {
            g.v2 = Some(nb);
        } else {
            g.v1 = nb;
        }
        g.write()
    };
    let blk = gov(f);
    if !blk.types.is_empty() {
        let k = rng.below(blk.types.len() as u64) as usize;
        for v in [2u8, 255, 0x80] {
            let mut nb = blk.clone();
            nb.types[k].1 = v;
            out.push(("dst_flag_not_0_or_1", with(f, nb)));
        }
        let mut nb = blk.clone();
        nb.types[k].2 = nb.chars.len() as u8;
        out.push(("designation_index_equals_charcnt", with(f, nb)));
        let mut nb = blk.clone();
        nb.types[k].2 = 255;
        out.push(("designation_index_255", with(f, nb)));
        let mut nb = blk.clone();
        if let Some(last) = nb.chars.last_mut() {
            *last = b'A';
        }
        out.push(("missing_final_nul", with(f, nb)));
        let mut nb = blk.clone();
        nb.types[k].0 = i32::MIN;
        out.push(("utoff_i32_min", with(f, nb)));
        // indicator pairs
        for (s, u) in [(0u8, 1u8), (2, 0), (1, 2), (0, 0), (1, 1), (1, 0)] {
            let mut nb = blk.clone();
            nb.isstd = vec![0; nb.types.len()];
            nb.isut = vec![0; nb.types.len()];
            nb.isstd[k] = s;
            nb.isut[k] = u;
            out.push(("indicator_pair", with(f, nb)));
        }
        let mut nb = blk.clone();
        nb.isut = vec![0; nb.types.len()];
        nb.isut[k] = 1; // isut without isstd: pair (0, 1)
        out.push(("indicator_pair", with(f, nb)));
    }
    if !blk.transitions.is_empty() {
        let k = rng.below(blk.transitions.len() as u64) as usize;
        let mut nb = blk.clone();
        nb.transitions[k].1 = nb.types.len() as u8;
        out.push(("transition_type_index_out_of_range", with(f, nb)));
    }
    // footer corruptions
    if let Some(ft) = &f.footer {
        let mk = |nf: Vec<u8>| {
            let mut g = f.clone();
            g.footer = Some(nf);
            g.write()
        };
        out.push(("footer_without_trailing_newline", mk(ft[..ft.len() - 1].to_vec())));
        out.push(("footer_without_leading_newline", mk(ft[1..].to_vec())));
        out.push(("footer_empty", mk(vec![])));
        let mut c = vec![b'\n', b':'];
        c.extend(&ft[1..]);
        out.push(("footer_with_colon", mk(c)));
        let mut c = ft.clone();
        c.insert(ft.len() - 1, 0);
        out.push(("footer_with_nul", mk(c)));
        let mut c = ft.clone();
        c.insert(1, 0xff);
        out.push(("footer_not_utf8", mk(c)));
        // a newline inside the footer: the text between the first and the last newline is then not a TZ string,
        // whatever its first line is (every position, so that some cut leaves a complete description in front)
        for p in 1..ft.len().saturating_sub(1) {
            if ft[p] != b'\n' {
                let mut c = ft.clone();
                c[p] = b'\n';
                out.push(("footer_with_interior_newline", mk(c)));
            }
        }
        // something after a complete footer that itself ends in a newline: a second footer, a second file
        for tail in [&b"EST5\n"[..], &b"\nCET-1\n"[..], &b"TZif3 and so on\n"[..], &b"x\n"[..]] {
            let mut c = ft.clone();
            c.extend(tail);
            out.push(("footer_followed_by_more_lines", mk(c)));
        }
        let mut c = ft.clone();
        c.extend(&ft[1..]);
        out.push(("footer_followed_by_more_lines", mk(c)));
        out.push(("footer_garbage", mk(b"\nEST5EDT\n".to_vec())));
        out.push(("footer_garbage", mk(b"\nEST5EDT,M3.2.0,M11.1.0,\n".to_vec())));
    }
    // random single-byte flips
    for _ in 0..6 {
        let mut b = good.clone();
        let p = rng.below(b.len() as u64) as usize;
        b[p] ^= 1 << rng.below(8);
        out.push(("random_bit_flip", b));
    }
    out
}

fn zone_hash(z: &ZoneSpec, v: u8) -> u64 {
    Fnv::new().b(z.describe().as_bytes()).i(v as i64).get()
}

pub fn run(ctx: &Ctx) -> Report {
    let mut rep = Report::new("C08");
    rep.rule = "cases = TZif byte strings decoded by TimeZone::from_tz_data and, independently, by M-tzif's decoder (RFC 8536, DESIGN.md A.2). Well-formed files: generated zones (all six header counts varied independently, 32/64-bit times, shared/overlapping designation strings, isstd/isut vectors of every legal shape, leap records) written by M-tzif's writer as v1, v2, v3 \
                with the 32-bit block of v2/v3 filled with different valid data and the rule as footer (extended footers in v3, the same footer refused in v2); all 894 distinct files of the vendored tzdata 2025b trees (posix and right). Malformed files: every single-field corruption of the named kinds of those. distinct_nontrivial = distinct byte strings decoded."
        .into();
    rep.required_classes = vec![
        "v1",
        "v2",
        "v3",
        "leap_records_present",
        "isstd_only",
        "isstd_and_isut",
        "overlapping_designations",
        "file_with_transition_to_type_index_128_or_more",
        "transition_at_i32_min",
        "transition_at_i32_max",
        "file_with_256_types",
        "designation_table_longer_than_256",
        "designation_ends_after_octet_255",
        "empty_designation",
        "extension_used_in_v3_footer",
        "extension_footer_refused_in_v2",
        "iana_file_posix",
        "iana_file_right",
        "corruption/bad_magic",
        "corruption/version_byte_changed_in_first_header",
        "corruption/header_count_changed",
        "corruption/truncated",
        "corruption/indicator_pair",
        "corruption/dst_flag_not_0_or_1",
        "corruption/designation_index_equals_charcnt",
        "corruption/missing_final_nul",
        "corruption/footer_without_trailing_newline",
        "corruption/footer_with_colon",
        "corruption/footer_with_nul",
        "corruption/footer_with_interior_newline",
        "corruption/footer_followed_by_more_lines",
        "corruption/trailing_byte_after_v1",
    ];
    if let Err(e) = crate::mon::c03::self_tests().and_then(|_| tzif::self_test()) {
        rep.inconclusive.push(format!("model self-test failed: {}", e));
        return rep;
    }
    let (paths, blobs) = match load_corpus(&ctx.corpus) {
        Ok(x) => x,
        Err(e) => {
            rep.inconclusive.push(e);
            return rep;
        }
    };
    let mut cfg = ZoneCfg::lookup();
    cfg.max_transitions = if ctx.scale < 1.0 { 10 } else { 300 };
    cfg.extreme_offsets = true;
    // wl 1: generated zones in three versions
    run_cases(ctx, &mut rep, 1, ctx.n(100_000, 1_500_000), |l, rng, i| {
        let mut c = cfg.clone();
        if i % 2 == 0 {
            c.rule = *rng.pick(&[RuleMode::Fixed, RuleMode::Alt, RuleMode::Alt]);
            c.extreme_offsets = false;
        }
        if i % 5 == 0 {
            c.extreme_times = false; // so that a v1 encoding exists
            c.max_transitions = 12;
        }
        let mut z = gen_zone(rng, &c);
        if i % 5 == 0 {
            // bring times into the 32-bit range
            if !z.transitions.iter().all(|t| t.0.abs() < (1 << 31)) {
                z.transitions.retain(|t| t.0.abs() < (1 << 31));
                if z.rule.is_some() {
                    z.rule = None;
                }
            }
        }
        if i % 5 == 0 && z.transitions.len() >= 2 && z.rule.is_none() {
            // the ends of the 32-bit range are ordinary transition times of a version-1 file
            if i % 10 == 0 && z.transitions[1].0 > i32::MIN as i64 {
                z.transitions[0].0 = i32::MIN as i64;
                l.class("transition_at_i32_min");
            } else if z.transitions[z.transitions.len() - 2].0 < i32::MAX as i64 {
                let k = z.transitions.len() - 1;
                z.transitions[k].0 = i32::MAX as i64;
                l.class("transition_at_i32_max");
            }
        }
        if i % 11 == 3 {
            // wide type table: type indices are single octets, 256 types are possible; transitions retargeted to
            // indices >= 128 (what a signed octet would get wrong). The last transition keeps its type (rule junction).
            let want = *rng.pick(&[127usize, 128, 129, 200, 255, 256]);
            let pool = ["AAA", "BBBB", "CCCCC", "DDDDDD", "EEEEEEE", "FFF"];
            while z.types.len() < want {
                let k = z.types.len();
                z.types.push(crate::model::rule::TypeSpec { off: -40_000 + 313 * k as i32, dst: k % 3 == 0, desig: if k % 17 == 0 { None } else { Some(pool[k % pool.len()].to_string()) } });
            }
            let nt = z.transitions.len();
            for (j, t) in z.transitions.iter_mut().enumerate() {
                if j + 1 < nt && j % 2 == 0 {
                    t.1 = 128 + (t.0.unsigned_abs() as usize + j) % want.saturating_sub(128).max(1);
                    if t.1 >= want {
                        t.1 = want - 1;
                    }
                }
            }
            l.class(if want == 256 { "type_table_of_256" } else { "type_table_wide" });
        }
        let mut n = 0;
        for version in [0u8, b'2', b'3'] {
            if let Some(m) = make_file(&z, version, rng) {
                check_made(l, &m, "generated");
                l.distinct_hash(zone_hash(&z, version));
                n += 1;
                if i % 7000 == 1 && version == b'3' {
                    l.sample(|| Json::obj().set("zone", z.describe()).set("file", short(&m.file.write())));
                }
            }
        }
        l.op_n("TimeZone::from_tz_data", n);
    });
    // wl 2: every distinct vendored file
    let has_right: Vec<bool> = (0..blobs.len()).map(|k| paths.iter().any(|(p, b)| *b == k && p.starts_with("right/"))).collect();
    run_enum(ctx, &mut rep, 2, blobs.len() as u64, |l, _rng, i| {
        let b = &blobs[i as usize];
        let exp = compare(l, b, "vendored tzdata 2025b");
        match exp {
            Expect::Must(z) => {
                l.class(if has_right[i as usize] { "iana_file_right" } else { "iana_file_posix" });
                if z.rule.is_some() {
                    l.class("iana_file_with_footer_rule");
                }
                if b[4] == b'3' {
                    l.class("iana_file_v3");
                }
            }
            Expect::MustFail => l.harness_errors.push(format!("M-tzif decoder refuses the vendored file #{}", i)),
            Expect::Unspec => l.class("iana_file_unspecified_by_model"),
        }
        l.op("TimeZone::from_tz_data");
        l.distinct_enumerated += 1;
    });
    // wl 3: corruptions of generated files
    run_cases(ctx, &mut rep, 3, ctx.n(20_000, 300_000), |l, rng, _| {
        let mut c = cfg.clone();
        c.max_transitions = 8;
        c.extreme_times = false;
        c.rule = *rng.pick(&[RuleMode::None, RuleMode::Fixed, RuleMode::Alt]);
        c.extreme_offsets = false;
        let mut z = gen_zone(rng, &c);
        z.transitions.retain(|t| t.0.abs() < (1 << 31));
        let version = *rng.pick(&[0u8, b'2', b'3']);
        if version == 0 || z.transitions.is_empty() {
            z.rule = None;
        }
        if let Some(m) = make_file(&z, version, rng) {
            let cs = corruptions(&m.file, rng);
            let n = cs.len() as u64;
            for (kind, bytes) in cs {
                compare(l, &bytes, kind);
                l.class(corruption_class(kind));
                l.distinct_hash(Fnv::new().b(&bytes).get());
            }
            l.op_n("TimeZone::from_tz_data", n);
        }
    });
    // wl 4: generic corruptions of vendored files (byte level: the model decoder supplies the expectation)
    run_cases(ctx, &mut rep, 4, ctx.n(blobs.len() as u64 * 3, blobs.len() as u64 * 40), |l, rng, i| {
        let good = &blobs[i as usize % blobs.len()];
        let mut n = 0;
        // second header position = first occurrence of "TZif" after byte 4
        let h2 = good.windows(4).skip(4).position(|w| w == b"TZif").map(|p| p + 4);
        for _ in 0..ctx.inner(24) {
            let mut b = good.clone();
            let kind = match rng.below(8) {
                0 => {
                    let q = rng.below(b.len() as u64) as usize;
                    b.truncate(q);
                    "truncated"
                }
                1 => {
                    if let Some(h) = h2 {
                        let field = rng.below(6) as usize;
                        let p = h + 20 + field * 4;
                        let cur = u32::from_be_bytes([b[p], b[p + 1], b[p + 2], b[p + 3]]);
                        let nv = *rng.pick(&[cur.wrapping_add(1), cur.wrapping_sub(1), 0, 255, u32::MAX, 1 << 31]);
                        b[p..p + 4].copy_from_slice(&nv.to_be_bytes());
                    }
                    "header_count_changed"
                }
                2 => {
                    b[4] = *rng.pick(&[0u8, b'1', b'2', b'3', b'4']);
                    "version_byte_changed_in_first_header"
                }
                3 => {
                    let k = b.len() - 1;
                    b.truncate(k);
                    "footer_without_trailing_newline"
                }
                4 => {
                    b.push(*rng.pick(&[0u8, b'\n', b'x']));
                    "trailing_byte_after_footer"
                }
                5 if b.len() > 3 && b[b.len() - 1] == b'\n' => {
                    // the footer of a real file: one of its octets becomes a newline, or more lines follow it
                    let start = b[..b.len() - 1].iter().rposition(|&c| c == b'\n').unwrap_or(0);
                    if rng.chance(1, 2) && b.len() - 1 > start + 1 {
                        let p = start + 1 + rng.below((b.len() - 2 - start) as u64) as usize;
                        b[p] = b'\n';
                        "footer_with_interior_newline"
                    } else {
                        b.extend(*rng.pick(&[&b"EST5\n"[..], &b"\n\n"[..], &b"x\n"[..]]));
                        "footer_followed_by_more_lines"
                    }
                }
                _ => {
                    let p = rng.below(b.len() as u64) as usize;
                    b[p] = rng.next() as u8;
                    "random_byte"
                }
            };
            compare(l, &b, kind);
            l.class(corruption_class(kind));
            l.distinct_hash(Fnv::new().b(&b).get());
            n += 1;
        }
        l.op_n("TimeZone::from_tz_data", n);
    });
    rep
}

fn corruption_class(kind: &str) -> &'static str {
    match kind {
        "bad_magic" => "corruption/bad_magic",
        "bad_magic_in_second_header" => "corruption/bad_magic_in_second_header",
        "version_byte_changed_in_first_header" => "corruption/version_byte_changed_in_first_header",
        "version_byte_changed_in_second_header" => "corruption/version_byte_changed_in_second_header",
        "header_count_changed" => "corruption/header_count_changed",
        "first_header_count_changed" => "corruption/first_header_count_changed",
        "truncated" => "corruption/truncated",
        "trailing_byte_after_v1" => "corruption/trailing_byte_after_v1",
        "trailing_byte_after_footer" => "corruption/trailing_byte_after_footer",
        "dst_flag_not_0_or_1" => "corruption/dst_flag_not_0_or_1",
        "designation_index_equals_charcnt" => "corruption/designation_index_equals_charcnt",
        "designation_index_255" => "corruption/designation_index_255",
        "missing_final_nul" => "corruption/missing_final_nul",
        "utoff_i32_min" => "corruption/utoff_i32_min",
        "indicator_pair" => "corruption/indicator_pair",
        "transition_type_index_out_of_range" => "corruption/transition_type_index_out_of_range",
        "footer_without_trailing_newline" => "corruption/footer_without_trailing_newline",
        "footer_without_leading_newline" => "corruption/footer_without_leading_newline",
        "footer_empty" => "corruption/footer_empty",
        "footer_with_colon" => "corruption/footer_with_colon",
        "footer_with_nul" => "corruption/footer_with_nul",
        "footer_not_utf8" => "corruption/footer_not_utf8",
        "footer_garbage" => "corruption/footer_garbage",
        "footer_with_interior_newline" => "corruption/footer_with_interior_newline",
        "footer_followed_by_more_lines" => "corruption/footer_followed_by_more_lines",
        "random_bit_flip" => "corruption/random_bit_flip",
        _ => "corruption/random_byte",
    }
}
