//! M-posix: recogniser + denotation of POSIX TZ descriptions (DESIGN.md A.1), written from the grammar
//!
//!   tz     := name offset [ name [offset] "," rule "," rule ]          -- nothing may follow
//!   name   := ALPHA+ | "<" not-">"* ">"     then 3..=7 characters, each in [A-Za-z0-9+-]
//!   offset := ["+"|"-"] num [":" num [":" num]]      hour 0..=24, minute/second 0..=59
//!   rule   := day ["/" time]
//!   day    := "J" num (1..=365) | num (0..=365) | "M" num(1..=12) "." num(1..=5) "." num(0..=6)
//!   time   := num [":" num [":" num]]  hour 0..=24                 (extensions off: no sign)
//!          |  ["+"|"-"] num [":" num [":" num]]  hour 0..=167      (extensions on)
//!
//! as a recursive-descent recogniser over bytes returning Must(rule) | MustFail | Unspec.

use crate::core::Expect;
use crate::model::rule::{AltSpec, Day, TypeSpec};
use crate::model::zone::RuleSpec;

struct P<'a> {
    b: &'a [u8],
    i: usize,
    unspec: bool,
}

#[derive(Debug)]
struct Fail;

impl<'a> P<'a> {
    fn peek(&self) -> Option<u8> {
        self.b.get(self.i).copied()
    }
    fn eof(&self) -> bool {
        self.i >= self.b.len()
    }
    fn eat(&mut self, c: u8) -> bool {
        if self.peek() == Some(c) {
            self.i += 1;
            true
        } else {
            false
        }
    }
    fn num(&mut self) -> Result<u64, Fail> {
        let s = self.i;
        while let Some(c) = self.peek() {
            if c.is_ascii_digit() {
                self.i += 1;
            } else {
                break;
            }
        }
        let d = &self.b[s..self.i];
        if d.is_empty() {
            return Err(Fail);
        }
        let v = d.iter().fold(0u64, |a, &c| a.saturating_mul(10).saturating_add((c - b'0') as u64));
        if v >= 1000 {
            // no field of the grammar admits a value above 365: not a sentence, however it is written
            return Err(Fail);
        }
        if d.len() > 3 {
            // a value in range written with more than three digits (leading zeros): how wide a number may be
            // written is not stated
            self.unspec = true;
        }
        Ok(v)
    }
    fn name(&mut self) -> Result<String, Fail> {
        let raw: &[u8] = if self.eat(b'<') {
            let s = self.i;
            while let Some(c) = self.peek() {
                if c == b'>' {
                    break;
                }
                self.i += 1;
            }
            let r = &self.b[s..self.i];
            if !self.eat(b'>') {
                return Err(Fail);
            }
            r
        } else {
            let s = self.i;
            while let Some(c) = self.peek() {
                if c.is_ascii_alphabetic() {
                    self.i += 1;
                } else {
                    break;
                }
            }
            if let Some(c) = self.peek() {
                if c >= 0x80 {
                    // non-ASCII letters in an unquoted name are locale-dependent in POSIX; a character that is
                    // valid UTF-8 and not a letter in Unicode (no-break space, U+2003, ...) is a letter nowhere
                    let rest = &self.b[self.i..];
                    let valid = match std::str::from_utf8(rest) {
                        Ok(t) => t,
                        Err(e) => std::str::from_utf8(&rest[..e.valid_up_to()]).unwrap_or(""),
                    };
                    match valid.chars().next() {
                        Some(ch) if !ch.is_alphabetic() => {}
                        _ => self.unspec = true,
                    }
                }
            }
            &self.b[s..self.i]
        };
        if !(3..=7).contains(&raw.len()) {
            return Err(Fail);
        }
        if !raw.iter().all(|c| c.is_ascii_alphanumeric() || *c == b'+' || *c == b'-') {
            return Err(Fail);
        }
        Ok(String::from_utf8(raw.to_vec()).unwrap())
    }
    fn hms(&mut self) -> Result<(u64, u64, u64), Fail> {
        let h = self.num()?;
        let mut m = 0;
        let mut s = 0;
        if self.eat(b':') {
            m = self.num()?;
            if self.eat(b':') {
                s = self.num()?;
            }
        }
        Ok((h, m, s))
    }
    fn sign(&mut self) -> i64 {
        if self.eat(b'+') {
            1
        } else if self.eat(b'-') {
            -1
        } else {
            1
        }
    }
    /// POSIX offset (positive = west); returns seconds west
    fn offset(&mut self) -> Result<i64, Fail> {
        let sg = self.sign();
        let (h, m, s) = self.hms()?;
        if h > 24 || m > 59 || s > 59 {
            return Err(Fail);
        }
        Ok(sg * (h * 3600 + m * 60 + s) as i64)
    }
    fn day(&mut self) -> Result<Day, Fail> {
        if self.eat(b'J') {
            let n = self.num()?;
            if !(1..=365).contains(&n) {
                return Err(Fail);
            }
            Ok(Day::J(n as u16))
        } else if self.eat(b'M') {
            let m = self.num()?;
            if !self.eat(b'.') {
                return Err(Fail);
            }
            let w = self.num()?;
            if !self.eat(b'.') {
                return Err(Fail);
            }
            let d = self.num()?;
            if !(1..=12).contains(&m) || !(1..=5).contains(&w) || d > 6 {
                return Err(Fail);
            }
            Ok(Day::M(m as u8, w as u8, d as u8))
        } else {
            let n = self.num()?;
            if n > 365 {
                return Err(Fail);
            }
            Ok(Day::N(n as u16))
        }
    }
    fn rule(&mut self, ext: bool) -> Result<(Day, i64), Fail> {
        let d = self.day()?;
        let t = if self.eat(b'/') {
            if ext {
                let sg = self.sign();
                let (h, m, s) = self.hms()?;
                if h > 167 || m > 59 || s > 59 {
                    return Err(Fail);
                }
                sg * (h * 3600 + m * 60 + s) as i64
            } else {
                let (h, m, s) = self.hms()?;
                if h > 24 || m > 59 || s > 59 {
                    return Err(Fail);
                }
                (h * 3600 + m * 60 + s) as i64
            }
        } else {
            7200 // a missing transition time means 02:00:00
        };
        Ok((d, t))
    }
}

fn parse_inner(p: &mut P<'_>, ext: bool) -> Result<RuleSpec, Fail> {
    let std_name = p.name()?;
    let std_off = p.offset()?;
    let std = TypeSpec { off: (-std_off) as i32, dst: false, desig: Some(std_name) };
    if p.eof() {
        return Ok(RuleSpec::Fixed(std));
    }
    let dst_name = p.name()?;
    let dst_off = match p.peek() {
        Some(b',') => std_off - 3600, // one hour ahead of standard time
        Some(_) => p.offset()?,
        None => return Err(Fail), // DST name without rules
    };
    if !p.eat(b',') {
        return Err(Fail);
    }
    let (sd, st) = p.rule(ext)?;
    if !p.eat(b',') {
        return Err(Fail);
    }
    let (ed, et) = p.rule(ext)?;
    if !p.eof() {
        return Err(Fail);
    }
    let dst = TypeSpec { off: (-dst_off) as i32, dst: true, desig: Some(dst_name) };
    Ok(RuleSpec::Alt(AltSpec { std, dst, start: sd, start_time: st as i32, end: ed, end_time: et as i32 }))
}

/// Expected decoding of a TZ description. `ext` = RFC 8536 extensions (version-3 footers only).
pub fn parse(s: &[u8], ext: bool) -> Expect<RuleSpec> {
    // blanks *around* a description: the entry points trim differently and the statement is silent. Blanks *inside*
    // one are in no production of the grammar: not a sentence ("anything else ... is rejected")
    let ws = |c: &u8| c.is_ascii_whitespace();
    if s.first().map(ws) == Some(true) || s.last().map(ws) == Some(true) {
        return Expect::Unspec;
    }
    if s.iter().any(ws) {
        return Expect::MustFail;
    }
    let mut p = P { b: s, i: 0, unspec: false };
    let r = parse_inner(&mut p, ext);
    if p.unspec {
        return Expect::Unspec;
    }
    match r {
        Err(Fail) => Expect::MustFail,
        Ok(RuleSpec::Fixed(t)) => Expect::Must(RuleSpec::Fixed(t)),
        Ok(RuleSpec::Alt(a)) => {
            let (so, d_o, tt) = a.offsets_ok();
            if so && d_o && tt && a.consistent() {
                Expect::Must(RuleSpec::Alt(a))
            } else {
                Expect::MustFail
            }
        }
    }
}

pub fn self_test() -> Result<(), String> {
    let alt = |s: &str, ext: bool| match parse(s.as_bytes(), ext) {
        Expect::Must(RuleSpec::Alt(a)) => Some(a),
        _ => None,
    };
    let a = alt("EST5EDT,M3.2.0,M11.1.0", false).ok_or("US rule")?;
    if a.std.off != -18000 || a.dst.off != -14400 || a.start != Day::M(3, 2, 0) || a.start_time != 7200 || a.end_time != 7200 || !a.dst.dst || a.std.dst {
        return Err("US rule denotation".into());
    }
    let a = alt("<-03>+3<+03>-3,J1,J365", false).ok_or("quoted")?;
    if a.std.off != -10800 || a.dst.off != 10800 || a.std.desig.as_deref() != Some("-03") {
        return Err("quoted denotation".into());
    }
    let a = alt("IST-1GMT0,M10.5.0,M3.5.0/1", false).ok_or("negative dst")?;
    if a.std.off != 3600 || a.dst.off != 0 || a.end_time != 3600 {
        return Err("negative dst denotation".into());
    }
    if parse(b"HST10", false) != Expect::Must(RuleSpec::Fixed(TypeSpec::new(-36000, false, Some("HST")))) {
        return Err("HST10".into());
    }
    if parse(b"X-0:30", false) != Expect::MustFail || parse(b"XYZ-0:30", false) != Expect::Must(RuleSpec::Fixed(TypeSpec::new(1800, false, Some("XYZ")))) {
        return Err("sign convention".into());
    }
    for (s, ext, ok) in [
        ("EST5EDT", false, false),
        ("EST5EDT,M3.2.0", false, false),
        ("EST5EDT,M3.2.0,M11.1.0x", false, false),
        ("EST5EDT,M3.2.0/-1,M11.1.0", false, false),
        ("EST5EDT,M3.2.0/-1,M11.1.0", true, true),
        ("EST5EDT,M3.2.0/25,M11.1.0", false, false),
        ("EST5EDT,M3.2.0/24,M11.1.0", false, true),
        ("EST5EDT,M3.2.0/167,M11.1.0", true, true),
        ("EST5EDT,M3.2.0/168,M11.1.0", true, false),
        ("EST5EDT,0/0,J365/25", true, true),
        ("EST5EDT,0/0,J365/25", false, false),
        ("EST25", false, false),
        ("EST24:59:59", false, true),
        ("ES5", false, false),
        ("ESTESTEST5", false, false),
        ("EST5EDT,J0,J365", false, false),
        ("EST5EDT,366,J365", false, false),
        ("EST5EDT,M13.1.0,J365", false, false),
        ("EST5EDT,M1.0.0,J365", false, false),
        ("EST5EDT,M1.1.7,J365", false, false),
        ("", false, false),
        ("5", false, false),
        ("<EST5", false, false),
        ("<ES>5", false, false),
        ("<E+T>5", false, true),
        ("EST5:60", false, false),
        ("EST5:", false, false),
        ("EST+5", false, true),
        ("EST05EDT04,J1,J365", false, true),
    ] {
        let r = parse(s.as_bytes(), ext);
        let got = matches!(r, Expect::Must(_));
        if got != ok || r == Expect::Unspec {
            return Err(format!("recogniser on {:?} ext={}: {:?}", s, ext, r));
        }
    }
    if parse(b"EST5 ", false) != Expect::Unspec || parse(b"EST0005", false) != Expect::Unspec {
        return Err("unspec".into());
    }
    Ok(())
}
