//! M-zone: a zone description, its forward lookup by *linear scan*, and the C13 validator
//! (DESIGN.md A.3) implemented clause by clause.

use crate::core::Expect;
use crate::facade::E;
use crate::model::cal;
use crate::model::leap::LeapTable;
use crate::model::rule::{AltSpec, RuleClass, TypeSpec};
use tz::timezone::{LeapSecond, LocalTimeType, TimeZone, Transition, TransitionRule};

#[derive(Clone, Debug, PartialEq, Eq, Hash)]
pub enum RuleSpec {
    Fixed(TypeSpec),
    Alt(AltSpec),
}

#[derive(Clone, Debug, PartialEq, Eq, Hash, Default)]
pub struct ZoneSpec {
    pub transitions: Vec<(i64, usize)>,
    pub types: Vec<TypeSpec>,
    pub leaps: LeapTable,
    pub rule: Option<RuleSpec>,
}

/// What the clock shows at an instant.
#[derive(Clone, Debug, PartialEq)]
pub enum Fwd {
    Type(TypeSpec),
    /// at or after the last transition of a zone without trailing rule
    NoType,
    /// the statement does not pin the answer down (degenerate / overlapping rule, arithmetic at the i64 edge, year guard)
    Unspec,
}

pub struct ZoneModel<'a> {
    pub z: &'a ZoneSpec,
    pub class: Option<RuleClass>,
}

impl ZoneSpec {
    pub fn describe(&self) -> String {
        let tr: Vec<String> = if self.transitions.len() <= 24 {
            self.transitions.iter().map(|(t, i)| format!("{}->#{}", t, i)).collect()
        } else {
            let mut v: Vec<String> = self.transitions[..8].iter().map(|(t, i)| format!("{}->#{}", t, i)).collect();
            v.push(format!("...{} more...", self.transitions.len() - 16));
            v.extend(self.transitions[self.transitions.len() - 8..].iter().map(|(t, i)| format!("{}->#{}", t, i)));
            v
        };
        let ty: Vec<String> = self.types.iter().enumerate().map(|(i, t)| format!("#{}{}", i, t)).collect();
        let rule = match &self.rule {
            None => "none".to_string(),
            Some(RuleSpec::Fixed(t)) => format!("Fixed{}", t),
            Some(RuleSpec::Alt(a)) => format!("{}", a),
        };
        format!("Zone{{transitions[{}]=[{}] types=[{}] leaps={:?} rule={}}}", self.transitions.len(), tr.join(","), ty.join(","), self.leaps.0, rule)
    }

    pub fn tz_parts(&self) -> Result<(Vec<Transition>, Vec<LocalTimeType>, Vec<LeapSecond>, Option<TransitionRule>), String> {
        let tr = self.transitions.iter().map(|&(t, i)| Transition::new(t, i)).collect();
        let mut ty = Vec::with_capacity(self.types.len());
        for t in &self.types {
            ty.push(t.to_tz()?);
        }
        let lp = self.leaps.0.iter().map(|&(l, c)| LeapSecond::new(l, c)).collect();
        let rule = match &self.rule {
            None => None,
            Some(RuleSpec::Fixed(t)) => Some(TransitionRule::Fixed(t.to_tz()?)),
            Some(RuleSpec::Alt(a)) => Some(TransitionRule::Alternate(a.to_tz()?)),
        };
        Ok((tr, ty, lp, rule))
    }

    /// build through the owned constructor
    pub fn to_tz(&self) -> Result<TimeZone, String> {
        let (tr, ty, lp, rule) = self.tz_parts()?;
        TimeZone::new(tr, ty, lp, rule).map_err(|e| format!("{:?}", e))
    }

    pub fn from_tz(z: &tz::TimeZoneRef<'_>) -> ZoneSpec {
        ZoneSpec {
            transitions: z.transitions().iter().map(|t| (t.unix_leap_time(), t.local_time_type_index())).collect(),
            types: z.local_time_types().iter().map(TypeSpec::from_tz).collect(),
            leaps: LeapTable(z.leap_seconds().iter().map(|l| (l.unix_leap_time(), l.correction())).collect()),
            rule: match z.extra_rule() {
                None => None,
                Some(TransitionRule::Fixed(t)) => Some(RuleSpec::Fixed(TypeSpec::from_tz(t))),
                Some(TransitionRule::Alternate(a)) => Some(RuleSpec::Alt(AltSpec::from_tz(a))),
            },
        }
    }

    pub fn model(&self) -> ZoneModel<'_> {
        let class = match &self.rule {
            Some(RuleSpec::Alt(a)) => Some(a.class()),
            _ => None,
        };
        ZoneModel { z: self, class }
    }

    /// all offsets any type of the zone (table or rule) carries
    pub fn offsets(&self) -> Vec<i32> {
        let mut v: Vec<i32> = self.types.iter().map(|t| t.off).collect();
        match &self.rule {
            Some(RuleSpec::Fixed(t)) => v.push(t.off),
            Some(RuleSpec::Alt(a)) => {
                v.push(a.std.off);
                v.push(a.dst.off);
            }
            None => {}
        }
        v.sort();
        v.dedup();
        v
    }
}

pub fn year_guard_ok(t: i64) -> bool {
    if t < cal::min_unix() || t > cal::max_unix() {
        return false;
    }
    let y = cal::year_of_unix(t);
    y >= i32::MIN as i64 + 2 && y <= i32::MAX as i64 - 2
}

impl<'a> ZoneModel<'a> {
    pub fn rule_type(&self, u: i64) -> Fwd {
        match &self.z.rule {
            None => Fwd::NoType,
            Some(RuleSpec::Fixed(t)) => Fwd::Type(t.clone()),
            Some(RuleSpec::Alt(a)) => {
                if !year_guard_ok(u) {
                    return Fwd::Unspec; // "Err or the right answer, never a wrong one" is checked by C04 itself
                }
                match a.is_dst(u, self.class.unwrap()) {
                    Some(true) => Fwd::Type(a.dst.clone()),
                    Some(false) => Fwd::Type(a.std.clone()),
                    None => Fwd::Unspec,
                }
            }
        }
    }

    /// the type in effect at UTC instant u: latest transition at or before it (on the counting
    /// scale), the first type before the first transition, the trailing rule from the last one on
    pub fn forward(&self, u: i64) -> Fwd {
        let z = self.z;
        if z.transitions.is_empty() {
            return match &z.rule {
                None => Fwd::Type(z.types[0].clone()),
                Some(_) => self.rule_type(u),
            };
        }
        // with a leap table, the answer is left open only where the instant's own leap-scale value is not an i64
        // (the statement does not say whether the conversion may refuse those)
        let l = z.leaps.f(u);
        if l < i64::MIN as i128 || l > i64::MAX as i128 {
            return Fwd::Unspec;
        }
        let l = l as i64;
        let last = z.transitions[z.transitions.len() - 1];
        if l >= last.0 {
            return self.rule_type(u);
        }
        let mut idx = 0usize; // the zone's first type before the first transition
        for &(t, i) in &z.transitions {
            if t <= l {
                idx = i;
            } else {
                break;
            }
        }
        Fwd::Type(z.types[idx].clone())
    }

    /// UTC instant at which transition k takes effect
    pub fn transition_instant(&self, k: usize) -> i128 {
        self.z.leaps.switch(self.z.transitions[k].0)
    }
}

/// The C13 sentence, clause by clause. Returns Must(()) for "accept", MustFail with the named error
/// for the first violated clause *when it is the only one* (callers compare variants on single-defect
/// inputs only), Unspec when evaluating the last clause is itself impossible.
pub fn validate(z: &ZoneSpec) -> (Expect<()>, Option<E>) {
    if z.types.is_empty() {
        return (Expect::MustFail, Some(E::NoLocalTimeType));
    }
    for &(_, i) in &z.transitions {
        if i >= z.types.len() {
            return (Expect::MustFail, Some(E::InvalidLocalTimeTypeIndex));
        }
    }
    if !z.transitions.windows(2).all(|w| w[0].0 < w[1].0) {
        return (Expect::MustFail, Some(E::InvalidTransition));
    }
    if !z.leaps.valid() {
        return (Expect::MustFail, Some(E::InvalidLeapSecond));
    }
    if let (Some(rule), Some(&(t_last, i_last))) = (&z.rule, z.transitions.last()) {
        let u = z.leaps.g(t_last);
        if u < i64::MIN as i128 || u > i64::MAX as i128 || t_last == i64::MIN {
            return (Expect::MustFail, None); // some error, variant unspecified
        }
        let u = u as i64;
        let want = &z.types[i_last];
        match rule {
            RuleSpec::Fixed(t) => {
                if t != want {
                    return (Expect::MustFail, Some(E::InconsistentExtraRule));
                }
            }
            RuleSpec::Alt(a) => {
                if !year_guard_ok(u) {
                    return (Expect::MustFail, None);
                }
                match a.is_dst(u, a.class()) {
                    Some(d) => {
                        let got = if d { &a.dst } else { &a.std };
                        if got != want {
                            return (Expect::MustFail, Some(E::InconsistentExtraRule));
                        }
                    }
                    None => {
                        // statement silent on what the rule prescribes there; if both halves differ from the
                        // last type the rule cannot prescribe it, if both equal it must
                        if &a.dst != want && &a.std != want {
                            return (Expect::MustFail, Some(E::InconsistentExtraRule));
                        }
                        if !(&a.dst == want && &a.std == want) {
                            return (Expect::Unspec, None);
                        }
                    }
                }
            }
        }
    }
    (Expect::Must(()), None)
}
