//! Reference models = the oracles. Written from the property statements, RFC 8536 and POSIX;
//! they share no code with tz-rs and use different algorithms on purpose.
pub mod cal;
pub mod text;
pub mod leap;
pub mod rule;
pub mod find;
pub mod posix;
pub mod zone;
pub mod tzif;
pub mod resolve;
