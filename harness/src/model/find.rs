//! M-find: the expected result of the local-time search, defined from the *clock's* behaviour.
//!
//! For civil seconds c (the searched fields read as if they were UTC; second 60 = next minute :00):
//!   Normal entries = { c - o : o an offset of the zone, forward(c - o) has offset o }
//!     (every instant showing c has that form, so this is exactly the set of instants showing c);
//!   gap entries    = { X in table instants + rule instants of years y-2..y+2 :
//!                      off(X) > off(X-1)  and  X + off(X-1) <= c < X + off(X) }
//!     defined by the clock at X-1 and X, hence insensitive to how many coincident no-op transitions
//!     the representation has; the list is sorted by instant.
//! `forward` is a parameter: M-zone's linear scan, or the implementation's own lookup (the literal
//! round trip the property states).

use crate::model::cal;
use crate::model::rule::TypeSpec;
use crate::model::zone::{Fwd, RuleSpec, ZoneModel};

#[derive(Clone, Debug, PartialEq)]
pub enum Entry {
    Normal { u: i64, ty: TypeSpec },
    Gap { x: i64, before: TypeSpec, after: TypeSpec },
}

impl Entry {
    pub fn instant(&self) -> i64 {
        match self {
            Entry::Normal { u, .. } => *u,
            Entry::Gap { x, .. } => *x,
        }
    }
}

impl std::fmt::Display for Entry {
    fn fmt(&self, f: &mut std::fmt::Formatter) -> std::fmt::Result {
        match self {
            Entry::Normal { u, ty } => write!(f, "Normal@{}{}", u, ty),
            Entry::Gap { x, before, after } => write!(f, "Skipped@{}{}->{}", x, before, after),
        }
    }
}

pub fn fmt_entries(v: &[Entry]) -> String {
    let s: Vec<String> = v.iter().map(|e| e.to_string()).collect();
    format!("[{}]", s.join(", "))
}

#[derive(Clone, Debug, PartialEq)]
pub enum Expected {
    List(Vec<Entry>),
    /// some candidate falls where the statements are silent (range edge, year guard, degenerate rule)
    Unspec,
}

/// `c` = civil seconds of the searched local time; `fwd` = forward lookup used to define the clock.
pub fn expected(zm: &ZoneModel<'_>, fwd: &dyn Fn(i64) -> Fwd, c: i64) -> Expected {
    let z = zm.z;
    let mut out: Vec<Entry> = vec![];
    // Normal entries
    for o in z.offsets() {
        let u = c as i128 - o as i128;
        if u < cal::min_unix() as i128 || u > cal::max_unix() as i128 {
            return Expected::Unspec;
        }
        let u = u as i64;
        match fwd(u) {
            Fwd::Type(t) => {
                if t.off == o {
                    out.push(Entry::Normal { u, ty: t });
                }
            }
            Fwd::NoType => {}
            Fwd::Unspec => return Expected::Unspec,
        }
    }
    // gap candidates: table instants (the last one only when a rule follows) ...
    let mut cands: Vec<i64> = vec![];
    let n = z.transitions.len();
    for k in 0..n {
        if k == n - 1 && z.rule.is_none() {
            break;
        }
        let x = zm.transition_instant(k);
        if (x - c as i128).abs() > (1i128 << 32) {
            continue; // offsets are bounded by i32: a gap this far away cannot contain c
        }
        cands.push(x as i64);
    }
    // ... and rule instants around the searched year
    if let Some(RuleSpec::Alt(a)) = &z.rule {
        if c < cal::min_unix() || c > cal::max_unix() {
            return Expected::Unspec;
        }
        let y = cal::year_of_unix(c);
        if y < i32::MIN as i64 + 4 || y > i32::MAX as i64 - 4 {
            return Expected::Unspec;
        }
        for k in y - 2..=y + 2 {
            cands.push(a.s(k));
            cands.push(a.e(k));
        }
    }
    cands.sort();
    cands.dedup();
    for x in cands {
        let (fa, fb) = (fwd(x - 1), fwd(x));
        match (fa, fb) {
            (Fwd::Type(a), Fwd::Type(b)) => {
                if b.off > a.off && x as i128 + a.off as i128 <= c as i128 && (c as i128) < x as i128 + b.off as i128 {
                    out.push(Entry::Gap { x, before: a, after: b });
                }
            }
            (Fwd::Unspec, _) | (_, Fwd::Unspec) => return Expected::Unspec,
            _ => {} // no clock on one side: nothing is skipped
        }
    }
    out.sort_by_key(|e| e.instant());
    Expected::List(out)
}
