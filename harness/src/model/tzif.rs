//! M-tzif: an RFC 8536 *writer* (v1 / v2 / v3, arbitrary counts, shared / overlapping designation
//! strings, isstd / isut vectors, 32-bit block of v2+ files filled with decoy data) and an independent
//! *decoder + validator* returning Must(zone) | MustFail | Unspec (DESIGN.md A.2).

use crate::core::Expect;
use crate::model::leap::LeapTable;
use crate::model::posix;
use crate::model::rule::TypeSpec;
use crate::model::zone::{validate, ZoneSpec};

#[derive(Clone, Debug, Default, PartialEq)]
pub struct Block {
    pub transitions: Vec<(i64, u8)>,
    /// (utoff, isdst, designation index)
    pub types: Vec<(i32, u8, u8)>,
    pub chars: Vec<u8>,
    pub leaps: Vec<(i64, i32)>,
    pub isstd: Vec<u8>,
    pub isut: Vec<u8>,
}

#[derive(Clone, Debug, PartialEq)]
pub struct File {
    /// 0, b'2' or b'3' (anything else for corruption tests)
    pub version: u8,
    pub v1: Block,
    pub v2: Option<Block>,
    /// raw footer bytes, including the two newlines (None for v1)
    pub footer: Option<Vec<u8>>,
}

fn header(out: &mut Vec<u8>, version: u8, b: &Block) {
    out.extend(b"TZif");
    out.push(version);
    out.extend([0u8; 15]);
    for c in [b.isut.len(), b.isstd.len(), b.leaps.len(), b.transitions.len(), b.types.len(), b.chars.len()] {
        out.extend((c as u32).to_be_bytes());
    }
}

fn body(out: &mut Vec<u8>, b: &Block, wide: bool) {
    for &(t, _) in &b.transitions {
        if wide {
            out.extend(t.to_be_bytes());
        } else {
            out.extend((t as i32).to_be_bytes());
        }
    }
    for &(_, i) in &b.transitions {
        out.push(i);
    }
    for &(off, dst, idx) in &b.types {
        out.extend(off.to_be_bytes());
        out.push(dst);
        out.push(idx);
    }
    out.extend(&b.chars);
    for &(t, c) in &b.leaps {
        if wide {
            out.extend(t.to_be_bytes());
        } else {
            out.extend((t as i32).to_be_bytes());
        }
        out.extend(c.to_be_bytes());
    }
    out.extend(&b.isstd);
    out.extend(&b.isut);
}

impl File {
    pub fn write(&self) -> Vec<u8> {
        let mut out = Vec::new();
        header(&mut out, self.version, &self.v1);
        body(&mut out, &self.v1, false);
        if let Some(v2) = &self.v2 {
            header(&mut out, self.version, v2);
            body(&mut out, v2, true);
            if let Some(f) = &self.footer {
                out.extend(f);
            }
        }
        out
    }

    /// byte offsets of the block boundaries (for truncation tests)
    pub fn boundaries(&self) -> Vec<usize> {
        let mut v = vec![0, 4, 5, 20, 44];
        let mut pos = 44;
        let add = |b: &Block, w: usize, pos: &mut usize, v: &mut Vec<usize>| {
            for sz in [b.transitions.len() * w, b.transitions.len(), b.types.len() * 6, b.chars.len(), b.leaps.len() * (w + 4), b.isstd.len(), b.isut.len()] {
                *pos += sz;
                v.push(*pos);
            }
        };
        add(&self.v1, 4, &mut pos, &mut v);
        if let Some(v2) = &self.v2 {
            v.push(pos + 4);
            v.push(pos + 20);
            pos += 44;
            v.push(pos);
            add(v2, 8, &mut pos, &mut v);
            if let Some(f) = &self.footer {
                v.push(pos + 1);
                pos += f.len();
                v.push(pos);
            }
        }
        v.sort();
        v.dedup();
        v
    }
}

/// Designation table builder with shared and overlapping strings: "XABC\0" serves both "XABC" (index 0)
/// and "ABC" (index 1) when both are wanted.
pub fn build_chars(desigs: &[Option<String>], overlap: bool) -> (Vec<u8>, Vec<usize>) {
    let mut chars: Vec<u8> = vec![];
    let mut idx: Vec<usize> = vec![];
    for d in desigs {
        let want: &[u8] = d.as_deref().unwrap_or("").as_bytes();
        // reuse: any position where `want\0` already occurs
        let mut found = None;
        if overlap || want.is_empty() {
            let mut needle = want.to_vec();
            needle.push(0);
            if chars.len() >= needle.len() {
                for p in 0..=chars.len() - needle.len() {
                    if chars[p..p + needle.len()] == needle[..] {
                        found = Some(p);
                        break;
                    }
                }
            }
        }
        let p = match found {
            Some(p) => p,
            None => {
                let p = chars.len();
                chars.extend(want);
                chars.push(0);
                p
            }
        };
        idx.push(p);
    }
    (chars, idx)
}

pub fn block_from_zone(z: &ZoneSpec, overlap: bool) -> Option<Block> {
    if z.types.len() > 256 || z.types.is_empty() {
        return None;
    }
    // wide type tables share their strings, otherwise the single-octet indices cannot reach them
    let (chars, idx) = build_chars(&z.types.iter().map(|t| t.desig.clone()).collect::<Vec<_>>(), overlap || z.types.len() > 30);
    if idx.iter().any(|&i| i > 255) {
        return None;
    }
    Some(Block {
        transitions: z.transitions.iter().map(|&(t, i)| (t, i as u8)).collect(),
        types: z.types.iter().zip(idx.iter()).map(|(t, &i)| (t.off, t.dst as u8, i as u8)).collect(),
        chars,
        leaps: z.leaps.0.clone(),
        isstd: vec![],
        isut: vec![],
    })
}

// ------------------------------------------------------------------------------------------------
// decoder

struct R<'a> {
    b: &'a [u8],
    p: usize,
}

impl<'a> R<'a> {
    fn take(&mut self, n: u128) -> Option<&'a [u8]> {
        if n > (self.b.len() - self.p) as u128 {
            return None;
        }
        let n = n as usize;
        let s = &self.b[self.p..self.p + n];
        self.p += n;
        Some(s)
    }
    fn u32(&mut self) -> Option<u32> {
        self.take(4).map(|s| u32::from_be_bytes([s[0], s[1], s[2], s[3]]))
    }
}

struct Hdr {
    version: u8,
    isut: u32,
    isstd: u32,
    leap: u32,
    time: u32,
    typ: u32,
    chr: u32,
}

fn read_header(r: &mut R<'_>) -> Option<Hdr> {
    let magic = r.take(4)?;
    if magic != b"TZif" {
        return None;
    }
    let version = r.take(1)?[0];
    if !(version == 0 || version == b'2' || version == b'3') {
        return None;
    }
    r.take(15)?;
    let h = Hdr { version, isut: r.u32()?, isstd: r.u32()?, leap: r.u32()?, time: r.u32()?, typ: r.u32()?, chr: r.u32()? };
    if h.typ == 0 || h.chr == 0 || !(h.isut == 0 || h.isut == h.typ) || !(h.isstd == 0 || h.isstd == h.typ) {
        return None;
    }
    Some(h)
}

struct Raw<'a> {
    times: &'a [u8],
    idx: &'a [u8],
    types: &'a [u8],
    chars: &'a [u8],
    leaps: &'a [u8],
    isstd: &'a [u8],
    isut: &'a [u8],
}

fn read_body<'a>(r: &mut R<'a>, h: &Hdr, w: u128) -> Option<Raw<'a>> {
    Some(Raw {
        times: r.take(h.time as u128 * w)?,
        idx: r.take(h.time as u128)?,
        types: r.take(h.typ as u128 * 6)?,
        chars: r.take(h.chr as u128)?,
        leaps: r.take(h.leap as u128 * (w + 4))?,
        isstd: r.take(h.isstd as u128)?,
        isut: r.take(h.isut as u128)?,
    })
}

fn be_time(s: &[u8]) -> i64 {
    if s.len() == 4 {
        i32::from_be_bytes([s[0], s[1], s[2], s[3]]) as i64
    } else {
        i64::from_be_bytes([s[0], s[1], s[2], s[3], s[4], s[5], s[6], s[7]])
    }
}

fn name_ok(d: &[u8]) -> bool {
    (3..=7).contains(&d.len()) && d.iter().all(|c| c.is_ascii_alphanumeric() || *c == b'+' || *c == b'-')
}

fn zone_from_raw(h: &Hdr, raw: &Raw<'_>, w: usize) -> Option<ZoneSpec> {
    let mut z = ZoneSpec::default();
    for k in 0..h.time as usize {
        z.transitions.push((be_time(&raw.times[k * w..(k + 1) * w]), raw.idx[k] as usize));
    }
    for k in 0..h.typ as usize {
        let t = &raw.types[k * 6..k * 6 + 6];
        let off = i32::from_be_bytes([t[0], t[1], t[2], t[3]]);
        if off == i32::MIN {
            return None;
        }
        let dst = match t[4] {
            0 => false,
            1 => true,
            _ => return None,
        };
        let idx = t[5] as usize;
        if idx >= raw.chars.len() {
            return None;
        }
        let end = raw.chars[idx..].iter().position(|c| *c == 0)?;
        let d = &raw.chars[idx..idx + end];
        let desig = if d.is_empty() {
            None
        } else {
            if !name_ok(d) {
                return None;
            }
            Some(String::from_utf8(d.to_vec()).unwrap())
        };
        z.types.push(TypeSpec { off, dst, desig });
    }
    let mut leaps = vec![];
    for k in 0..h.leap as usize {
        let rec = &raw.leaps[k * (w + 4)..(k + 1) * (w + 4)];
        leaps.push((be_time(&rec[..w]), i32::from_be_bytes([rec[w], rec[w + 1], rec[w + 2], rec[w + 3]])));
    }
    z.leaps = LeapTable(leaps);
    for k in 0..h.typ as usize {
        let s = raw.isstd.get(k).copied().unwrap_or(0);
        let u = raw.isut.get(k).copied().unwrap_or(0);
        if !matches!((s, u), (0, 0) | (1, 0) | (1, 1)) {
            return None;
        }
    }
    Some(z)
}

pub fn decode(bytes: &[u8]) -> Expect<ZoneSpec> {
    let mut r = R { b: bytes, p: 0 };
    let h1 = match read_header(&mut r) {
        Some(h) => h,
        None => return Expect::MustFail,
    };
    let raw1 = match read_body(&mut r, &h1, 4) {
        Some(x) => x,
        None => return Expect::MustFail,
    };
    let mut unspec = false;
    let z = if h1.version == 0 {
        if r.p != bytes.len() {
            return Expect::MustFail; // trailing bytes after a v1 body
        }
        match zone_from_raw(&h1, &raw1, 4) {
            Some(z) => z,
            None => return Expect::MustFail,
        }
    } else {
        // the contents of the first block never matter
        let h2 = match read_header(&mut r) {
            Some(h) => h,
            None => return Expect::MustFail,
        };
        if h2.version != h1.version {
            unspec = true; // RFC 8536 requires both to agree; what a reader does otherwise is not stated
        }
        let raw2 = match read_body(&mut r, &h2, 8) {
            Some(x) => x,
            None => return Expect::MustFail,
        };
        let mut z = match zone_from_raw(&h2, &raw2, 8) {
            Some(z) => z,
            None => return Expect::MustFail,
        };
        let footer = &bytes[r.p..];
        if footer.is_empty() || footer[0] != b'\n' || footer[footer.len() - 1] != b'\n' {
            return Expect::MustFail;
        }
        if footer.len() == 1 {
            unspec = true; // a single newline: not a footer per RFC 8536, accepted as "no rule" by lenient readers
        }
        let text = if footer.len() >= 2 { &footer[1..footer.len() - 1] } else { &footer[0..0] };
        if std::str::from_utf8(text).is_err() {
            return Expect::MustFail;
        }
        if text.contains(&0) {
            return Expect::MustFail;
        }
        // leading blanks hide what the first character is: statement silent
        let trimmed_start = text.iter().position(|c| !c.is_ascii_whitespace());
        match trimmed_start {
            None => {
                if !text.is_empty() {
                    unspec = true; // only blanks
                }
            }
            Some(p) => {
                if text[p] == b':' {
                    return Expect::MustFail;
                }
                match posix::parse(text, h2.version == b'3') {
                    Expect::Must(rule) => z.rule = Some(rule),
                    Expect::MustFail => return Expect::MustFail,
                    Expect::Unspec => unspec = true,
                }
            }
        }
        z
    };
    if unspec {
        return Expect::Unspec;
    }
    match validate(&z) {
        (Expect::Must(()), _) => Expect::Must(z),
        (Expect::MustFail, _) => Expect::MustFail,
        (Expect::Unspec, _) => Expect::Unspec,
    }
}

pub fn self_test() -> Result<(), String> {
    // writer -> decoder round trip on a small zone, all three versions
    let z = ZoneSpec {
        transitions: vec![(-100, 1), (1000, 0), (2000, 1)],
        types: vec![TypeSpec::new(-18000, false, Some("EST")), TypeSpec::new(-14400, true, Some("XEDT")), TypeSpec::new(0, false, Some("EDT"))],
        leaps: LeapTable(vec![(78796800, 1)]),
        rule: None,
    };
    let b = block_from_zone(&z, true).ok_or("block")?;
    if b.chars != b"EST\0XEDT\0" || b.types[2].2 != 5 {
        return Err(format!("overlapping designation table: {:?} {:?}", b.chars, b.types));
    }
    for (version, v2) in [(0u8, false), (b'2', true), (b'3', true)] {
        let f = File { version, v1: if v2 { Block { types: vec![(0, 0, 0)], chars: b"UTC\0".to_vec(), ..Default::default() } } else { b.clone() }, v2: if v2 { Some(b.clone()) } else { None }, footer: if v2 { Some(b"\n\n".to_vec()) } else { None } };
        match decode(&f.write()) {
            Expect::Must(d) if d == z => {}
            other => return Err(format!("round trip v{}: {:?}", version, other)),
        }
    }
    Ok(())
}

/// Byte layout of a (well-formed enough) file: offsets of every block, for structured mutation.
#[derive(Clone, Debug, Default)]
pub struct Layout {
    /// start offsets of the two headers (second = None for v1)
    pub headers: Vec<usize>,
    /// per block (v1 block, then 64-bit block): [times, idx, types, chars, leaps, isstd, isut, end] offsets and the time width
    pub blocks: Vec<([usize; 8], usize)>,
    pub footer: Option<(usize, usize)>,
}

pub fn layout(bytes: &[u8]) -> Option<Layout> {
    let mut r = R { b: bytes, p: 0 };
    let mut lay = Layout::default();
    let one = |r: &mut R<'_>, w: usize, lay: &mut Layout| -> Option<u8> {
        lay.headers.push(r.p);
        let h = read_header(r)?;
        let mut o = [0usize; 8];
        let sizes = [h.time as usize * w, h.time as usize, h.typ as usize * 6, h.chr as usize, h.leap as usize * (w + 4), h.isstd as usize, h.isut as usize];
        let mut p = r.p;
        for k in 0..7 {
            o[k] = p;
            p = p.checked_add(sizes[k])?;
        }
        o[7] = p;
        if p > r.b.len() {
            return None;
        }
        r.p = p;
        lay.blocks.push((o, w));
        Some(h.version)
    };
    let v = one(&mut r, 4, &mut lay)?;
    if v != 0 {
        one(&mut r, 8, &mut lay)?;
        lay.footer = Some((r.p, bytes.len()));
    }
    Some(lay)
}
