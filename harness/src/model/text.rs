//! M-text: an independent reader of the ISO-8601-like rendering (DESIGN.md A.5).
//!
//! ^(-?[0-9]+)-([0-9]{2})-([0-9]{2})T([0-9]{2}):([0-9]{2}):([0-9]{2})\.([0-9]{9})(Z|[+-][0-9]{2,}:[0-9]{2}(:[0-9]{2})?)$

#[derive(Debug, Clone, PartialEq, Eq)]
pub struct Parsed {
    pub year: i64,
    pub month: u32,
    pub day: u32,
    pub hour: u32,
    pub minute: u32,
    pub second: u32,
    pub nanos: u32,
    /// None = "Z"
    pub offset: Option<i64>,
    pub offset_has_seconds: bool,
}

struct P<'a> {
    b: &'a [u8],
    i: usize,
}

impl<'a> P<'a> {
    fn digits(&mut self, min: usize, max: usize) -> Result<&'a [u8], String> {
        let s = self.i;
        while self.i < self.b.len() && self.b[self.i].is_ascii_digit() && self.i - s < max {
            self.i += 1;
        }
        if self.i - s < min {
            return Err(format!("expected at least {} digits at byte {}", min, s));
        }
        Ok(&self.b[s..self.i])
    }
    fn lit(&mut self, c: u8) -> Result<(), String> {
        if self.i < self.b.len() && self.b[self.i] == c {
            self.i += 1;
            Ok(())
        } else {
            Err(format!("expected {:?} at byte {}", c as char, self.i))
        }
    }
    fn peek(&self) -> Option<u8> {
        self.b.get(self.i).copied()
    }
}

fn num(d: &[u8]) -> i64 {
    d.iter().fold(0i64, |a, &c| a * 10 + (c - b'0') as i64)
}

pub fn parse(s: &str) -> Result<Parsed, String> {
    let mut p = P { b: s.as_bytes(), i: 0 };
    let neg = p.peek() == Some(b'-');
    if neg {
        p.i += 1;
    }
    let yd = p.digits(1, 12)?;
    if yd.len() > 1 && yd[0] == b'0' {
        return Err("year has leading zeros (not plain decimal)".into());
    }
    if neg && yd == b"0" {
        return Err("negative zero year".into());
    }
    let year = if neg { -num(yd) } else { num(yd) };
    p.lit(b'-')?;
    let month = num(p.digits(2, 2)?) as u32;
    p.lit(b'-')?;
    let day = num(p.digits(2, 2)?) as u32;
    p.lit(b'T')?;
    let hour = num(p.digits(2, 2)?) as u32;
    p.lit(b':')?;
    let minute = num(p.digits(2, 2)?) as u32;
    p.lit(b':')?;
    let second = num(p.digits(2, 2)?) as u32;
    p.lit(b'.')?;
    let nanos = num(p.digits(9, 9)?) as u32;
    let (offset, has_s) = match p.peek() {
        Some(b'Z') => {
            p.i += 1;
            (None, false)
        }
        Some(c @ (b'+' | b'-')) => {
            p.i += 1;
            let hd = p.digits(2, 12)?;
            if hd.len() > 2 && hd[0] == b'0' {
                return Err("offset hours have superfluous leading zeros".into());
            }
            let oh = num(hd);
            p.lit(b':')?;
            let om = num(p.digits(2, 2)?);
            let mut os = 0;
            let mut has_s = false;
            if p.peek() == Some(b':') {
                p.i += 1;
                os = num(p.digits(2, 2)?);
                has_s = true;
            }
            if om >= 60 || os >= 60 {
                return Err("offset minutes/seconds not below 60".into());
            }
            let v = oh * 3600 + om * 60 + os;
            (Some(if c == b'-' { -v } else { v }), has_s)
        }
        _ => return Err(format!("expected Z or signed offset at byte {}", p.i)),
    };
    if p.i != p.b.len() {
        return Err(format!("trailing characters at byte {}", p.i));
    }
    Ok(Parsed { year, month, day, hour, minute, second, nanos, offset, offset_has_seconds: has_s })
}
