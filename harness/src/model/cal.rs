//! M-cal: proleptic Gregorian calendar arithmetic (era-based algorithm), cross-checked at start-up
//! against an odometer that walks day by day from 1970-01-01 (Thursday) applying the month-length
//! rule, which is correct by construction.

pub fn is_leap(y: i64) -> bool {
    (y.rem_euclid(4) == 0 && y.rem_euclid(100) != 0) || y.rem_euclid(400) == 0
}

pub fn days_in_month(y: i64, m: u32) -> u32 {
    match m {
        1 | 3 | 5 | 7 | 8 | 10 | 12 => 31,
        4 | 6 | 9 | 11 => 30,
        2 => {
            if is_leap(y) {
                29
            } else {
                28
            }
        }
        _ => 0,
    }
}

/// days since 1970-01-01 of the civil date (y, m, d); linear in d, so "December 32nd" works
pub fn days_from_civil(y: i64, m: u32, d: i64) -> i64 {
    let y = if m <= 2 { y - 1 } else { y };
    let era = y.div_euclid(400);
    let yoe = y - era * 400; // [0, 399]
    let mp = if m > 2 { m as i64 - 3 } else { m as i64 + 9 }; // March = 0
    let doy = (153 * mp + 2) / 5 + d - 1;
    let doe = yoe * 365 + yoe / 4 - yoe / 100 + doy;
    era * 146097 + doe - 719468
}

pub fn civil_from_days(z: i64) -> (i64, u32, u32) {
    let z = z + 719468;
    let era = z.div_euclid(146097);
    let doe = z - era * 146097; // [0, 146096]
    let yoe = (doe - doe / 1460 + doe / 36524 - doe / 146096) / 365; // [0, 399]
    let y = yoe + era * 400;
    let doy = doe - (365 * yoe + yoe / 4 - yoe / 100); // [0, 365]
    let mp = (5 * doy + 2) / 153; // [0, 11]
    let d = (doy - (153 * mp + 2) / 5 + 1) as u32;
    let m = if mp < 10 { mp + 3 } else { mp - 9 } as u32;
    (if m <= 2 { y + 1 } else { y }, m, d)
}

/// 0 = Sunday
pub fn weekday_of_days(days: i64) -> u8 {
    (days + 4).rem_euclid(7) as u8
}

pub fn year_day(y: i64, m: u32, d: u32) -> u16 {
    (days_from_civil(y, m, d as i64) - days_from_civil(y, 1, 1)) as u16
}

#[derive(Clone, Copy, Debug, PartialEq, Eq, Hash)]
pub struct Civil {
    pub year: i64,
    pub month: u8,
    pub day: u8,
    pub hour: u8,
    pub minute: u8,
    pub second: u8,
}

impl std::fmt::Display for Civil {
    fn fmt(&self, f: &mut std::fmt::Formatter) -> std::fmt::Result {
        write!(f, "{}-{:02}-{:02}T{:02}:{:02}:{:02}", self.year, self.month, self.day, self.hour, self.minute, self.second)
    }
}

pub fn civil_from_unix(t: i64) -> Civil {
    let days = t.div_euclid(86400);
    let sod = t.rem_euclid(86400);
    let (year, m, d) = civil_from_days(days);
    Civil { year, month: m as u8, day: d as u8, hour: (sod / 3600) as u8, minute: (sod / 60 % 60) as u8, second: (sod % 60) as u8 }
}

/// count of non-leap seconds since the epoch; second 60 = second 0 of the next minute
pub fn unix_from_civil(year: i64, month: u8, day: u8, hour: u8, minute: u8, second: u8) -> i64 {
    days_from_civil(year, month as u32, day as i64) * 86400 + hour as i64 * 3600 + minute as i64 * 60 + second as i64
}

pub fn valid_civil(year: i64, month: u8, day: u8, hour: u8, minute: u8, second: u8, ns: u32) -> bool {
    (1..=12).contains(&month) && day >= 1 && (day as u32) <= days_in_month(year, month as u32) && hour <= 23 && minute <= 59 && second <= 60 && ns < 1_000_000_000
}

/// first / last second whose year fits in i32 (derived by the model, compared with the statement's numbers in self_test)
pub fn min_unix() -> i64 {
    unix_from_civil(i32::MIN as i64, 1, 1, 0, 0, 0)
}
pub fn max_unix() -> i64 {
    unix_from_civil(i32::MAX as i64, 12, 31, 23, 59, 59)
}

pub fn year_of_unix(t: i64) -> i64 {
    civil_from_days(t.div_euclid(86400)).0
}

/// Odometer: walks forward and backward from 1970-01-01, one day at a time.
pub struct Odometer {
    pub days: i64,
    pub y: i64,
    pub m: u32,
    pub d: u32,
    pub wd: u8,
}

impl Odometer {
    pub fn epoch() -> Odometer {
        Odometer { days: 0, y: 1970, m: 1, d: 1, wd: 4 }
    }
    pub fn step_fwd(&mut self) {
        self.days += 1;
        self.wd = (self.wd + 1) % 7;
        self.d += 1;
        if self.d > days_in_month(self.y, self.m) {
            self.d = 1;
            self.m += 1;
            if self.m > 12 {
                self.m = 1;
                self.y += 1;
            }
        }
    }
    pub fn step_back(&mut self) {
        self.days -= 1;
        self.wd = (self.wd + 6) % 7;
        if self.d > 1 {
            self.d -= 1;
        } else {
            if self.m > 1 {
                self.m -= 1;
            } else {
                self.m = 12;
                self.y -= 1;
            }
            self.d = days_in_month(self.y, self.m);
        }
    }
}

/// Model self-test; a failure is *inconclusive* for the run (the oracle is broken), never a violation.
pub fn self_test() -> Result<(), String> {
    if min_unix() != -67768100567971200 || max_unix() != 67767976233532799 {
        return Err(format!("range constants: {} {}", min_unix(), max_unix()));
    }
    for dir in [1i64, -1] {
        let mut o = Odometer::epoch();
        for _ in 0..(if cfg!(miri) { 800 } else { 600 * 366 }) {
            if days_from_civil(o.y, o.m, o.d as i64) != o.days {
                return Err(format!("days_from_civil({},{},{}) != {}", o.y, o.m, o.d, o.days));
            }
            if civil_from_days(o.days) != (o.y, o.m, o.d) {
                return Err(format!("civil_from_days({}) != {}-{}-{}", o.days, o.y, o.m, o.d));
            }
            if weekday_of_days(o.days) != o.wd {
                return Err(format!("weekday({})", o.days));
            }
            if dir > 0 {
                o.step_fwd()
            } else {
                o.step_back()
            }
        }
    }
    // round trip at the extremes of the i32 year range and around era boundaries
    for &y in &[i32::MIN as i64, i32::MIN as i64 + 1, -400, -1, 0, 1, 399, 400, 401, i32::MAX as i64 - 1, i32::MAX as i64] {
        for m in 1..=12u32 {
            for d in [1, days_in_month(y, m)] {
                let z = days_from_civil(y, m, d as i64);
                if civil_from_days(z) != (y, m, d) {
                    return Err(format!("round trip {}-{}-{}", y, m, d));
                }
            }
        }
        if days_from_civil(y + 1, 1, 1) - days_from_civil(y, 1, 1) != if is_leap(y) { 366 } else { 365 } {
            return Err(format!("year length {}", y));
        }
    }
    Ok(())
}
