//! M-leap: the two time scales of a zone with a leap-second table (L_i, c_i).
//!   g(L) = L - c(last record with L_i < L)           counting scale -> UTC
//!   f(u) = max { L : g(L) <= u }                     UTC -> counting scale
//! An inserted leap second L_i shares its UTC value with L_i + 1; a deleted second (negative leap)
//! is a UTC value no L maps to. The switch instant of a transition recorded at count T is
//! min { u : f(u) >= T }.

#[derive(Clone, Debug, PartialEq, Eq, Hash, Default)]
pub struct LeapTable(pub Vec<(i64, i32)>);

impl LeapTable {
    pub fn is_empty(&self) -> bool {
        self.0.is_empty()
    }

    /// counting scale -> UTC (i128: callers decide what an unrepresentable value means)
    pub fn g(&self, l: i64) -> i128 {
        let mut c = 0i32;
        for &(li, ci) in &self.0 {
            if li < l {
                c = ci;
            } else {
                break;
            }
        }
        l as i128 - c as i128
    }

    /// UTC -> counting scale: the largest L with g(L) <= u
    pub fn f(&self, u: i64) -> i128 {
        // segment k (k = 0..=n) holds L in (L_{k-1}, L_k] and uses correction c_{k-1} (c_{-1} = 0);
        // scan from the last segment down, the first non-empty solution is the maximum
        let n = self.0.len();
        for k in (0..=n).rev() {
            let c = if k == 0 { 0 } else { self.0[k - 1].1 } as i128;
            let lower_excl: i128 = if k == 0 { i128::MIN } else { self.0[k - 1].0 as i128 };
            let upper_incl: i128 = if k == n { i128::MAX } else { self.0[k].0 as i128 };
            let cand = (u as i128 + c).min(upper_incl);
            if cand > lower_excl {
                return cand;
            }
        }
        unreachable!("segment 0 is unbounded below")
    }

    /// first UTC instant at which a transition recorded at count T is in effect
    pub fn switch(&self, t: i64) -> i128 {
        let mut u = self.g(t);
        // walk to the exact minimum (at most a couple of steps: corrections move by one)
        for _ in 0..4 {
            if u - 1 >= i64::MIN as i128 && u - 1 <= i64::MAX as i128 && self.f((u - 1) as i64) >= t as i128 {
                u -= 1;
            } else {
                break;
            }
        }
        for _ in 0..4 {
            if u >= i64::MIN as i128 && u <= i64::MAX as i128 && self.f(u as i64) < t as i128 {
                u += 1;
            } else {
                break;
            }
        }
        u
    }

    /// UTC instants deleted by negative leap seconds: values no L maps to
    pub fn is_deleted(&self, u: i64) -> bool {
        let l = self.f(u);
        if l < i64::MIN as i128 || l > i64::MAX as i128 {
            return false;
        }
        self.g(l as i64) != u as i128
    }

    /// validity per the C13 statement
    pub fn valid(&self) -> bool {
        if let Some(&(l0, c0)) = self.0.first() {
            if l0 < 0 || (c0 != 1 && c0 != -1) {
                return false;
            }
        }
        self.0.windows(2).all(|w| (w[1].0 as i128 - w[0].0 as i128) >= 2_419_199 && ((w[1].1 as i64 - w[0].1 as i64).abs() == 1))
    }
}

pub fn self_test() -> Result<(), String> {
    // the real table's 2006 entry: L = 1136073622 is the inserted second (tz-rs' own unit test values)
    let t = LeapTable(vec![(78796800, 1), (94694401, 2), (1136073622, 23)]);
    // (corrections in between are irrelevant for the probes below except the last)
    let t2 = LeapTable(vec![(1136073622 - 22 + 0, 1)]);
    let _ = t2;
    if t.g(1136073621) != 1136073621 - 2 {
        return Err("g before".into());
    }
    let full = LeapTable(vec![(100, 1), (100 + 2_419_200, 2), (100 + 2 * 2_419_200 + 1, 1)]);
    // positive record at L=100: g(100) = 100, g(101) = 100 (shared), g(102) = 101
    if full.g(100) != 100 || full.g(101) != 100 || full.g(102) != 101 || full.g(99) != 99 {
        return Err("g around positive record".into());
    }
    if full.f(99) != 99 || full.f(100) != 101 || full.f(101) != 102 {
        return Err("f around positive record".into());
    }
    // negative record at L3 (correction 2 -> 1): UTC value L3 - 2 + 1 is deleted
    let l3 = 100 + 2 * 2_419_200 + 1;
    if full.g(l3) != (l3 - 2) as i128 || full.g(l3 + 1) != l3 as i128 {
        return Err("g around negative record".into());
    }
    if !full.is_deleted(l3 - 1) || full.is_deleted(l3 - 2) || full.is_deleted(l3) {
        return Err("deleted instant".into());
    }
    if full.f(l3 - 2) != l3 as i128 || full.f(l3 - 1) != l3 as i128 || full.f(l3) != (l3 + 1) as i128 {
        return Err("f around negative record".into());
    }
    // brute force: f is the max L with g(L) <= u, and monotone
    let mut prev = i128::MIN;
    for u in 90..130 {
        let mut best = i128::MIN;
        for l in 50..200 {
            if full.g(l) <= u as i128 {
                best = best.max(l as i128);
            }
        }
        if full.f(u) != best {
            return Err(format!("f({}) = {} but brute force says {}", u, full.f(u), best));
        }
        if full.f(u) < prev {
            return Err("f not monotone".into());
        }
        prev = full.f(u);
    }
    for u in (l3 - 10)..(l3 + 10) {
        let mut best = i128::MIN;
        for l in (l3 - 50)..(l3 + 50) {
            if full.g(l) <= u as i128 {
                best = best.max(l as i128);
            }
        }
        if full.f(u) != best {
            return Err(format!("f({}) = {} but brute force says {}", u, full.f(u), best));
        }
    }
    for tt in [99, 100, 101, 102, l3 - 1, l3, l3 + 1, l3 + 2] {
        let sw = full.switch(tt);
        if !(full.f(sw as i64) >= tt as i128 && full.f(sw as i64 - 1) < tt as i128) {
            return Err(format!("switch({})", tt));
        }
    }
    if !full.valid() || LeapTable(vec![(5, 2)]).valid() || LeapTable(vec![(-1, 1)]).valid() || LeapTable(vec![(0, 1), (2_419_198, 2)]).valid() {
        return Err("valid()".into());
    }
    Ok(())
}
