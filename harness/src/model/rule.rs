//! M-rule: POSIX DST rules. `Day::days(y)` is computed by walking the days of the month (M) or by
//! plain day counting (J, n); `S(y)` / `E(y)` are the yearly start / end instants; the class of a rule
//! (north / south / degenerate / overlapping) and C11's `consistent()` are decided by brute force
//! over a full 400-year cycle.

use crate::model::cal;
use tz::timezone::{AlternateTime, Julian0WithLeap, Julian1WithoutLeap, LocalTimeType, MonthWeekDay, RuleDay};

#[derive(Clone, Copy, Debug, PartialEq, Eq, Hash, PartialOrd, Ord)]
pub enum Day {
    /// Jn, 1..=365, February 29 is never counted
    J(u16),
    /// n, 0..=365, February 29 counted; 365 in a common year is January 1 of the next year
    N(u16),
    /// Mm.w.d
    M(u8, u8, u8),
}

impl Day {
    /// the 1151 notations: 365 Jn + 366 n + 420 Mm.w.d
    pub fn all() -> Vec<Day> {
        let mut v = Vec::with_capacity(1151);
        for n in 1..=365 {
            v.push(Day::J(n));
        }
        for n in 0..=365 {
            v.push(Day::N(n));
        }
        for m in 1..=12 {
            for w in 1..=5 {
                for d in 0..=6 {
                    v.push(Day::M(m, w, d));
                }
            }
        }
        v
    }

    /// days since the epoch of this rule day in year y
    pub fn days(&self, y: i64) -> i64 {
        let jan1 = cal::days_from_civil(y, 1, 1);
        match *self {
            Day::J(n) => {
                // day n of a 365-day numbering: days after February 28 shift by one in leap years
                let n = n as i64;
                jan1 + (n - 1) + if cal::is_leap(y) && n >= 60 { 1 } else { 0 }
            }
            Day::N(n) => jan1 + n as i64,
            Day::M(m, w, d) => {
                // closed form (fast path; `days_by_walking` is the definition it is validated against)
                let dim = cal::days_in_month(y, m as u32) as i64;
                let first = cal::days_from_civil(y, m as u32, 1);
                let wd1 = cal::weekday_of_days(first) as i64;
                let mut dom = (d as i64 - wd1).rem_euclid(7) + 7 * (w as i64 - 1);
                if dom >= dim {
                    dom -= 7; // week 5 = last occurrence
                }
                first + dom
            }
        }
    }

    /// definition of Mm.w.d by walking the days of the month (reference for the closed form above)
    pub fn days_by_walking(&self, y: i64) -> i64 {
        match *self {
            Day::M(m, w, d) => {
                let dim = cal::days_in_month(y, m as u32);
                let first = cal::days_from_civil(y, m as u32, 1);
                let mut hits: Vec<i64> = Vec::with_capacity(5);
                for k in 0..dim as i64 {
                    if cal::weekday_of_days(first + k) == d {
                        hits.push(first + k);
                    }
                }
                let idx = (w as usize - 1).min(hits.len() - 1); // week 5 = last occurrence
                hits[idx]
            }
            _ => self.days(y),
        }
    }

    pub fn to_tz(&self) -> Result<RuleDay, String> {
        Ok(match *self {
            Day::J(n) => RuleDay::Julian1WithoutLeap(Julian1WithoutLeap::new(n).map_err(|e| format!("{:?}", e))?),
            Day::N(n) => RuleDay::Julian0WithLeap(Julian0WithLeap::new(n).map_err(|e| format!("{:?}", e))?),
            Day::M(m, w, d) => RuleDay::MonthWeekDay(MonthWeekDay::new(m, w, d).map_err(|e| format!("{:?}", e))?),
        })
    }

    pub fn from_tz(r: &RuleDay) -> Day {
        match r {
            RuleDay::Julian1WithoutLeap(j) => Day::J(j.get()),
            RuleDay::Julian0WithLeap(j) => Day::N(j.get()),
            RuleDay::MonthWeekDay(m) => Day::M(m.month(), m.week(), m.week_day()),
        }
    }

    pub fn posix(&self) -> String {
        match *self {
            Day::J(n) => format!("J{}", n),
            Day::N(n) => format!("{}", n),
            Day::M(m, w, d) => format!("M{}.{}.{}", m, w, d),
        }
    }

    pub fn kind(&self) -> usize {
        match self {
            Day::J(_) => 0,
            Day::N(_) => 1,
            Day::M(..) => 2,
        }
    }
}

#[derive(Clone, Debug, PartialEq, Eq, Hash)]
pub struct TypeSpec {
    pub off: i32,
    pub dst: bool,
    pub desig: Option<String>,
}

impl TypeSpec {
    pub fn new(off: i32, dst: bool, desig: Option<&str>) -> TypeSpec {
        TypeSpec { off, dst, desig: desig.map(|s| s.to_string()) }
    }
    pub fn to_tz(&self) -> Result<LocalTimeType, String> {
        LocalTimeType::new(self.off, self.dst, self.desig.as_deref().map(|s| s.as_bytes())).map_err(|e| format!("{:?}", e))
    }
    pub fn same_as(&self, l: &LocalTimeType) -> bool {
        self.off == l.ut_offset() && self.dst == l.is_dst() && self.desig.as_deref().unwrap_or("") == l.time_zone_designation()
    }
    pub fn from_tz(l: &LocalTimeType) -> TypeSpec {
        let d = l.time_zone_designation();
        TypeSpec { off: l.ut_offset(), dst: l.is_dst(), desig: if d.is_empty() { None } else { Some(d.to_string()) } }
    }
}

impl std::fmt::Display for TypeSpec {
    fn fmt(&self, f: &mut std::fmt::Formatter) -> std::fmt::Result {
        write!(f, "({}s,{},{})", self.off, if self.dst { "dst" } else { "std" }, self.desig.as_deref().unwrap_or("-"))
    }
}

#[derive(Clone, Copy, Debug, PartialEq, Eq)]
pub enum RuleClass {
    /// S(y) <= E(y) <= S(y+1) for every y
    North,
    /// E(y) <= S(y) <= E(y+1) for every y
    South,
    /// both: S(y) = E(y) for every y; the statement does not say whether DST is never or always
    Degenerate,
    /// neither: DST periods of consecutive years overlap; outside C04's domain
    Overlapping,
}

#[derive(Clone, Debug, PartialEq, Eq, Hash)]
pub struct AltSpec {
    pub std: TypeSpec,
    pub dst: TypeSpec,
    pub start: Day,
    pub start_time: i32,
    pub end: Day,
    pub end_time: i32,
}

pub const CYCLE_Y0: i64 = 2000;

impl AltSpec {
    /// DST-start instant of year y: start day at start time, read on the standard-time clock
    pub fn s(&self, y: i64) -> i64 {
        self.start.days(y) * 86400 + self.start_time as i64 - self.std.off as i64
    }
    /// DST-end instant of year y: end day at end time, read on the daylight-time clock
    pub fn e(&self, y: i64) -> i64 {
        self.end.days(y) * 86400 + self.end_time as i64 - self.dst.off as i64
    }
    /// d of the C11 statement
    pub fn d(&self) -> i64 {
        (self.start_time as i64 - self.std.off as i64) - (self.end_time as i64 - self.dst.off as i64)
    }

    pub fn class(&self) -> RuleClass {
        let mut north = true;
        let mut south = true;
        for y in CYCLE_Y0 - 1..=CYCLE_Y0 + 400 {
            let (s0, e0, s1, e1) = (self.s(y), self.e(y), self.s(y + 1), self.e(y + 1));
            if !(s0 <= e0 && e0 <= s1) {
                north = false;
            }
            if !(e0 <= s0 && s0 <= e1) {
                south = false;
            }
            if !north && !south {
                break;
            }
        }
        match (north, south) {
            (true, true) => RuleClass::Degenerate,
            (true, false) => RuleClass::North,
            (false, true) => RuleClass::South,
            (false, false) => RuleClass::Overlapping,
        }
    }

    /// C11: each of S(y)-E(y), S(y+1)-E(y), S(y)-E(y+1) is >= 0 for all y or <= 0 for all y
    pub fn consistent(&self) -> bool {
        let mut lo = [i64::MAX; 3];
        let mut hi = [i64::MIN; 3];
        for y in CYCLE_Y0..CYCLE_Y0 + 400 {
            let v = [self.s(y) - self.e(y), self.s(y + 1) - self.e(y), self.s(y) - self.e(y + 1)];
            for k in 0..3 {
                lo[k] = lo[k].min(v[k]);
                hi[k] = hi[k].max(v[k]);
            }
        }
        (0..3).all(|k| lo[k] >= 0 || hi[k] <= 0)
    }

    /// windows of the C11 statement
    pub fn offsets_ok(&self) -> (bool, bool, bool) {
        let w = |o: i32| (o as i64) > -25 * 3600 && (o as i64) < 26 * 3600;
        (w(self.std.off), w(self.dst.off), (self.start_time as i64).abs() < 7 * 86400 && (self.end_time as i64).abs() < 7 * 86400)
    }

    /// Some(true/false) on interleaving rules; None where the statement is silent
    pub fn is_dst(&self, t: i64, class: RuleClass) -> Option<bool> {
        let y = cal::year_of_unix(t);
        match class {
            RuleClass::North => Some((y - 2..=y + 2).any(|k| self.s(k) <= t && t < self.e(k))),
            RuleClass::South => Some((y - 2..=y + 2).any(|k| self.s(k) <= t && t < self.e(k + 1))),
            _ => None,
        }
    }

    pub fn to_tz(&self) -> Result<AlternateTime, String> {
        AlternateTime::new(self.std.to_tz()?, self.dst.to_tz()?, self.start.to_tz()?, self.start_time, self.end.to_tz()?, self.end_time).map_err(|e| format!("{:?}", e))
    }

    pub fn from_tz(a: &AlternateTime) -> AltSpec {
        AltSpec { std: TypeSpec::from_tz(a.std()), dst: TypeSpec::from_tz(a.dst()), start: Day::from_tz(a.dst_start()), start_time: a.dst_start_time(), end: Day::from_tz(a.dst_end()), end_time: a.dst_end_time() }
    }
}

impl std::fmt::Display for AltSpec {
    fn fmt(&self, f: &mut std::fmt::Formatter) -> std::fmt::Result {
        write!(f, "Alt{{std{} dst{} start {}/{}s end {}/{}s}}", self.std, self.dst, self.start.posix(), self.start_time, self.end.posix(), self.end_time)
    }
}

/// Per-rule table of S(y), E(y) for a range of years (fast `is_dst` for sweeps).
pub struct RuleTable {
    pub y0: i64,
    pub s: Vec<i64>,
    pub e: Vec<i64>,
    pub class: RuleClass,
}

impl RuleTable {
    pub fn new(r: &AltSpec, y0: i64, y1: i64) -> RuleTable {
        RuleTable { y0, s: (y0..=y1).map(|y| r.s(y)).collect(), e: (y0..=y1).map(|y| r.e(y)).collect(), class: r.class() }
    }
    pub fn s(&self, y: i64) -> i64 {
        self.s[(y - self.y0) as usize]
    }
    pub fn e(&self, y: i64) -> i64 {
        self.e[(y - self.y0) as usize]
    }
    /// t must have its year within [y0+3, y1-3]
    pub fn is_dst(&self, t: i64) -> Option<bool> {
        let y = cal::year_of_unix(t);
        match self.class {
            RuleClass::North => Some((y - 2..=y + 2).any(|k| self.s(k) <= t && t < self.e(k))),
            RuleClass::South => Some((y - 2..=y + 2).any(|k| self.s(k) <= t && t < self.e(k + 1))),
            _ => None,
        }
    }
}

/// Per-notation day-of-year tables over the 400-year cycle: the finite quotient C11 is decided on.
pub struct DayTables {
    pub days: Vec<Day>,
    /// doy[n][k] = day-of-year (0-based, relative to Jan 1) of notation n in year CYCLE_Y0 + k, k in 0..=400
    pub doy: Vec<Vec<i16>>,
    /// len[k] = length of year CYCLE_Y0 + k
    pub len: Vec<i16>,
}

impl DayTables {
    pub fn new() -> DayTables {
        Self::with_stride(1)
    }
    /// every `stride`-th notation only (sanitizer slices)
    pub fn with_stride(stride: usize) -> DayTables {
        let days: Vec<Day> = Day::all().into_iter().step_by(stride.max(1)).collect();
        let doy = days.iter().map(|d| (0..=400).map(|k| (d.days(CYCLE_Y0 + k) - cal::days_from_civil(CYCLE_Y0 + k, 1, 1)) as i16).collect()).collect();
        let len = (0..=400).map(|k| if cal::is_leap(CYCLE_Y0 + k) { 366 } else { 365 }).collect();
        DayTables { days, doy, len }
    }
    /// (min, max) over the cycle of the day differences behind S(y)-E(y), S(y+1)-E(y), S(y)-E(y+1)
    pub fn diffs(&self, si: usize, ei: usize) -> [(i64, i64); 3] {
        let s = &self.doy[si];
        let e = &self.doy[ei];
        let mut r = [(i64::MAX, i64::MIN); 3];
        for k in 0..400 {
            let v = [s[k] as i64 - e[k] as i64, self.len[k] as i64 + s[k + 1] as i64 - e[k] as i64, s[k] as i64 - self.len[k] as i64 - e[k + 1] as i64];
            for j in 0..3 {
                r[j].0 = r[j].0.min(v[j]);
                r[j].1 = r[j].1.max(v[j]);
            }
        }
        r
    }
    pub fn consistent(diffs: &[(i64, i64); 3], d: i64) -> bool {
        diffs.iter().all(|&(lo, hi)| lo * 86400 + d >= 0 || hi * 86400 + d <= 0)
    }
}

pub fn self_test() -> Result<(), String> {
    // known dates: US rule M3.2.0 / M11.1.0 in 2024 = Mar 10 / Nov 3; EU M3.5.0 / M10.5.0 in 2024 = Mar 31 / Oct 27
    let chk = |d: Day, y: i64, m: u32, dd: i64| -> Result<(), String> {
        if d.days(y) != cal::days_from_civil(y, m, dd) {
            return Err(format!("{:?} in {} != {}-{}", d, y, m, dd));
        }
        Ok(())
    };
    chk(Day::M(3, 2, 0), 2024, 3, 10)?;
    chk(Day::M(11, 1, 0), 2024, 11, 3)?;
    chk(Day::M(3, 5, 0), 2024, 3, 31)?;
    chk(Day::M(10, 5, 0), 2024, 10, 27)?;
    chk(Day::M(2, 5, 4), 2024, 2, 29)?;
    chk(Day::M(2, 5, 4), 2023, 2, 23)?;
    chk(Day::J(59), 2024, 2, 28)?;
    chk(Day::J(60), 2024, 3, 1)?;
    chk(Day::J(60), 2023, 3, 1)?;
    chk(Day::N(59), 2024, 2, 29)?;
    chk(Day::N(59), 2023, 3, 1)?;
    chk(Day::N(365), 2023, 1, 366)?; // = 2024-01-01
    chk(Day::J(365), 2024, 12, 31)?;
    chk(Day::N(0), 2024, 1, 1)?;
    if Day::all().len() != 1151 {
        return Err("notation count".into());
    }
    for d in Day::all() {
        if let Day::M(..) = d {
            for y in CYCLE_Y0 - 1..=CYCLE_Y0 + 401 {
                if d.days(y) != d.days_by_walking(y) {
                    return Err(format!("closed form of {:?} in {} differs from walking the month", d, y));
                }
            }
        }
    }
    // table-based consistent() == direct consistent() on a few rules
    let t = DayTables::new();
    let mk = |s: Day, st: i32, e: Day, et: i32| AltSpec { std: TypeSpec::new(-18000, false, Some("EST")), dst: TypeSpec::new(-14400, true, Some("EDT")), start: s, start_time: st, end: e, end_time: et };
    for (s, st, e, et) in [(Day::M(3, 2, 0), 7200, Day::M(11, 1, 0), 7200), (Day::N(0), 0, Day::J(365), 90000), (Day::J(60), 0, Day::N(59), 0), (Day::M(2, 5, 0), 0, Day::J(59), 86399), (Day::J(1), -86400 * 3, Day::N(365), 100)] {
        let r = mk(s, st, e, et);
        let si = t.days.iter().position(|x| *x == s).unwrap();
        let ei = t.days.iter().position(|x| *x == e).unwrap();
        if DayTables::consistent(&t.diffs(si, ei), r.d()) != r.consistent() {
            return Err(format!("consistent() mismatch for {}", r));
        }
    }
    if mk(Day::M(3, 2, 0), 7200, Day::M(11, 1, 0), 7200).class() != RuleClass::North {
        return Err("US rule must be north".into());
    }
    if mk(Day::M(10, 1, 0), 7200, Day::M(4, 1, 0), 10800).class() != RuleClass::South {
        return Err("AU rule must be south".into());
    }
    Ok(())
}
