//! M-resolve: the tzset(3) resolution order of a TZ value over a virtual file system (DESIGN.md A.4).
//!
//!   ""          -> Err(empty), no read
//!   "localtime" -> read "/etc/localtime": unreadable => I/O error; readable => decode (malformed => decoding error)
//!   ":" rest    -> lookup(rest): none readable => I/O error; readable => decode, no fallback
//!   other s     -> lookup(s) (untrimmed): readable => decode, no fallback;
//!                  none readable => description grammar on s stripped of surrounding ASCII whitespace, no extensions
//!   lookup(p)   -> p starts with "/" ? read p : for d in directories, in order: read d + "/" + p; first readable wins

use crate::core::Expect;
use crate::model::posix;
use crate::model::zone::RuleSpec;

#[derive(Clone, Copy, Debug, PartialEq, Eq)]
pub enum Entry {
    Absent,
    /// a well-formed file; the number identifies it (it is encoded as the file's UTC offset)
    Valid(i32),
    Garbage,
    /// readable, zero bytes long: still "a file that was read" (malformed), never "no file"
    Empty,
    /// readable and structurally a TZif file, but not a valid zone (a 2-character designation, a transition to a
    /// type that does not exist, a footer contradicting the last transition): the decoder reports these through
    /// error classes other than "bad file" - still a file that was read, never "no file"
    Invalid(u8),
}

#[derive(Clone, Debug, PartialEq)]
pub enum Outcome {
    ZoneFromFile(i32),
    ZoneFromDescription(RuleSpec),
    ErrEmpty,
    ErrIo,
    ErrDecode,
    ErrDescription,
    /// description where the grammar oracle itself is silent
    Unspec,
}

pub struct Resolution {
    pub reads: Vec<String>,
    pub outcome: Outcome,
}

fn lookup(p: &str, dirs: &[&str], fs: &dyn Fn(&str) -> Entry, reads: &mut Vec<String>) -> Option<Entry> {
    if p.starts_with('/') {
        reads.push(p.to_string());
        match fs(p) {
            Entry::Absent => None,
            e => Some(e),
        }
    } else {
        for d in dirs {
            let path = format!("{}/{}", d, p);
            reads.push(path.clone());
            match fs(&path) {
                Entry::Absent => continue,
                e => return Some(e),
            }
        }
        None
    }
}

fn decode(e: Entry) -> Outcome {
    match e {
        Entry::Valid(k) => Outcome::ZoneFromFile(k),
        _ => Outcome::ErrDecode,
    }
}

pub fn resolve(value: &str, dirs: &[&str], fs: &dyn Fn(&str) -> Entry) -> Resolution {
    let mut reads = vec![];
    if value.is_empty() {
        return Resolution { reads, outcome: Outcome::ErrEmpty };
    }
    if value == "localtime" {
        reads.push("/etc/localtime".to_string());
        let outcome = match fs("/etc/localtime") {
            Entry::Absent => Outcome::ErrIo,
            e => decode(e),
        };
        return Resolution { reads, outcome };
    }
    if let Some(rest) = value.strip_prefix(':') {
        let outcome = match lookup(rest, dirs, fs, &mut reads) {
            None => Outcome::ErrIo,
            Some(e) => decode(e),
        };
        return Resolution { reads, outcome };
    }
    match lookup(value, dirs, fs, &mut reads) {
        Some(e) => Resolution { reads, outcome: decode(e) },
        None => {
            let trimmed = value.trim_matches(|c: char| c.is_ascii_whitespace());
            let outcome = match posix::parse(trimmed.as_bytes(), false) {
                Expect::Must(r) => Outcome::ZoneFromDescription(r),
                Expect::MustFail => Outcome::ErrDescription,
                Expect::Unspec => Outcome::Unspec,
            };
            Resolution { reads, outcome }
        }
    }
}
