//! One monitored case per libFuzzer input (target `model`): the input is the decision tape of the harness'
//! own generators (`Rng::from_bytes`), the oracles are the ones of the registered workloads. Coverage feedback
//! from the instrumented tz-rs build keeps the tapes that reach new branches, which is how a condition added by
//! an edit ("offset below -48 h", "first valid index odd") is found without anybody having listed it.

use crate::core::Local;
use crate::gen::rule::{gen_interleaving, gen_tie, rand_alt};
use crate::gen::zone::{gen_leaps, gen_zone, rule_only, RuleMode, ZoneCfg};
use crate::mon::{c01, c02, c03, c04, c05, c11, c12, c13, c14, c16, c18};
use crate::util::rng::Rng;

pub const PROPS: [&str; 13] = ["C01", "C02", "C03", "C04", "C05", "C06", "C11", "C12", "C13", "C14", "C16", "C17", "C18"];

/// date-time fields straight from the tape: every field a little beyond its valid range, the year anywhere in i32
fn fields(rng: &mut Rng) -> (i32, u8, u8, u8, u8, u8, u32) {
    let y = match rng.below(4) {
        0 => rng.next() as i32,
        1 => *rng.pick(&[i32::MIN, i32::MIN + 1, i32::MAX - 1, i32::MAX, 0, -1, 1600, 1900, 2000, 2024, 2100]),
        _ => rng.range(-3000, 5000) as i32,
    };
    let ns = match rng.below(3) {
        0 => rng.next() as u32,
        1 => *rng.pick(&[0u32, 1, 999_999_999, 1_000_000_000, u32::MAX]),
        _ => rng.below(1_000_000_000) as u32,
    };
    (y, rng.below(15) as u8, rng.below(34) as u8, rng.below(26) as u8, rng.below(62) as u8, rng.below(63) as u8, ns)
}

/// Runs the case described by `data` for property `prop`; the violations are in the returned `Local`.
pub fn run(prop: &str, data: &[u8]) -> Local {
    let mut l = Local::default();
    if data.len() < 2 {
        return l;
    }
    let sel = data[0];
    let mut rng = Rng::from_bytes(&data[1..]);
    let rng = &mut rng;
    match prop {
        "C01" => {
            let mut cnt = 0;
            for _ in 0..8 {
                let t = if sel & 1 == 0 { rng.next() as i64 } else { rng.range(crate::model::cal::min_unix() - 2, crate::model::cal::max_unix() + 2) };
                c01::check(&mut l, t, rng.below(1_000_000_000) as u32, &mut cnt);
            }
        }
        "C02" => {
            for _ in 0..8 {
                let (y, mo, d, h, mi, sec, ns) = fields(rng);
                c02::check_new(&mut l, y, mo, d, h, mi, sec, ns);
            }
            c02::check_unix_round_trip(&mut l, rng.range(crate::model::cal::min_unix(), crate::model::cal::max_unix()));
        }
        "C14" => {
            for _ in 0..8 {
                let (y, mo, d, h, mi, sec, ns) = fields(rng);
                let off = if rng.chance(1, 2) { (rng.next() as i32).max(i32::MIN + 1) } else { rng.range(-100_000, 100_000) as i32 };
                c14::check_new(&mut l, y, mo, d, h, mi, sec, ns, off);
            }
        }
        "C16" => {
            for _ in 0..8 {
                let n = (((rng.next() as i128) << 64) | rng.next() as i128) >> rng.below(110);
                c16::check(&mut l, n);
            }
            let (y, _, _, _, _, _, ns) = fields(rng);
            c16::check_ns_validation(&mut l, ns, y.clamp(-200_000, 200_000));
        }
        "C18" => {
            for _ in 0..8 {
                let (y, mo, d, h, mi, sec, ns) = fields(rng);
                let off = if rng.chance(1, 3) { 0 } else if rng.chance(1, 2) { (rng.next() as i32).max(i32::MIN + 1) } else { rng.range(-100_000, 100_000) as i32 };
                let ltt = c18::ltt_variant(&mut l, off, rng.below(4));
                if let Ok(dt) = crate::facade::dt_new(y, mo, d, h, mi, sec, ns, ltt) {
                    c18::check_dt(&mut l, &dt);
                }
                if let Ok(u) = crate::facade::utc_new(y, mo, d, h, mi, sec, ns) {
                    c18::check_utc(&mut l, &u);
                }
            }
        }
        "C03" => {
            let mut cfg = ZoneCfg::lookup();
            cfg.max_transitions = 40;
            let z = gen_zone(rng, &cfg);
            c03::check_zone(&mut l, &z, rng, 12, 4);
        }
        "C04" => {
            let a = match sel % 3 {
                0 => gen_interleaving(rng).0,
                1 => gen_tie(rng),
                _ => rand_alt(rng),
            };
            c04::check_rule(&mut l, &a, rng, 3, sel & 0x80 != 0);
        }
        "C05" | "C06" | "C17" => {
            let which = match prop {
                "C05" => c05::Which::C05,
                "C06" => c05::Which::C06,
                _ => c05::Which::C17,
            };
            let z = match sel % 3 {
                0 => rule_only(&gen_interleaving(rng).0),
                1 => gen_zone(rng, &ZoneCfg::search()),
                _ => {
                    let mut c = ZoneCfg::search();
                    c.rule = if rng.chance(1, 2) { RuleMode::None } else { RuleMode::Fixed };
                    gen_zone(rng, &c)
                }
            };
            c05::check_zone(&mut l, which, &z, rng, 6, 3, 24);
        }
        "C11" => {
            static PRE: std::sync::OnceLock<c11::Pre> = std::sync::OnceLock::new();
            let pre = PRE.get_or_init(|| c11::Pre::new(crate::model::rule::DayTables::new()));
            for _ in 0..8 {
                c11::fuzz_case(&mut l, pre, rng);
            }
        }
        "C12" if sel % 4 == 3 => {
            // the top of the i64 range (registered workload 3)
            let mut v: Vec<(i64, i32)> = vec![];
            let mut c: i32 = if rng.chance(1, 2) { 1 } else { -1 };
            let mut li: i64 = rng.range(0, 1_000_000);
            for _ in 0..rng.below(5) {
                v.push((li, c));
                li += rng.range(2_419_199, 90_000_000);
                c += if rng.chance(1, 2) { 1 } else { -1 };
            }
            if v.is_empty() {
                c = if rng.chance(1, 2) { 1 } else { -1 };
            }
            v.push((i64::MAX - rng.below(6) as i64, c));
            let t = crate::model::leap::LeapTable(v);
            for _ in 0..3 {
                let tt = i64::MAX - rng.below(8) as i64;
                let fixed = rng.chance(1, 2);
                c12::check_edge(&mut l, &t, tt, fixed);
            }
        }
        "C12" => {
            let mut t = gen_leaps(rng, true);
            t.0.truncate(6);
            let mut extra = vec![];
            for _ in 0..2 {
                let (li, _) = *rng.pick(&t.0);
                extra.push(li + rng.range(-3_000_000, 3_000_000));
            }
            c12::check_table(&mut l, &t, &extra);
        }
        "C13" => {
            let mut cfg = ZoneCfg::lookup();
            cfg.max_transitions = 12;
            if sel % 3 == 0 {
                cfg.rule = *rng.pick(&[RuleMode::Fixed, RuleMode::Alt]);
            }
            let z = gen_zone(rng, &cfg);
            c13::fuzz_case(&mut l, &z, rng);
        }
        _ => {}
    }
    for (what, input, expected, observed) in crate::facade::take_side() {
        l.violation(&what, input, expected, observed);
    }
    l
}
