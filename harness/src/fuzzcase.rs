//! One monitored case per libFuzzer input (target `model`): the input is the decision tape of the harness'
//! own generators (`Rng::from_bytes`), the oracles are the ones of the registered workloads. Coverage feedback
//! from the instrumented tz-rs build keeps the tapes that reach new branches, which is how a condition added by
//! an edit ("offset below -48 h", "first valid index odd") is found without anybody having listed it.

use crate::core::Local;
use crate::gen::rule::{gen_interleaving, gen_tie, rand_alt};
use crate::gen::zone::{gen_leaps, gen_zone, rule_only, RuleMode, ZoneCfg};
use crate::mon::{c03, c04, c05, c12, c13};
use crate::util::rng::Rng;

pub const PROPS: [&str; 7] = ["C03", "C04", "C05", "C06", "C12", "C13", "C17"];

/// Runs the case described by `data` for property `prop`; the violations are in the returned `Local`.
pub fn run(prop: &str, data: &[u8]) -> Local {
    let mut l = Local::default();
    if data.len() < 2 {
        return l;
    }
    let sel = data[0];
    let mut rng = Rng::from_bytes(&data[1..]);
    let rng = &mut rng;
    match prop {
        "C03" => {
            let mut cfg = ZoneCfg::lookup();
            cfg.max_transitions = 40;
            let z = gen_zone(rng, &cfg);
            c03::check_zone(&mut l, &z, rng, 12, 4);
        }
        "C04" => {
            let a = match sel % 3 {
                0 => gen_interleaving(rng).0,
                1 => gen_tie(rng),
                _ => rand_alt(rng),
            };
            c04::check_rule(&mut l, &a, rng, 3, sel & 0x80 != 0);
        }
        "C05" | "C06" | "C17" => {
            let which = match prop {
                "C05" => c05::Which::C05,
                "C06" => c05::Which::C06,
                _ => c05::Which::C17,
            };
            let z = match sel % 3 {
                0 => rule_only(&gen_interleaving(rng).0),
                1 => gen_zone(rng, &ZoneCfg::search()),
                _ => {
                    let mut c = ZoneCfg::search();
                    c.rule = if rng.chance(1, 2) { RuleMode::None } else { RuleMode::Fixed };
                    gen_zone(rng, &c)
                }
            };
            c05::check_zone(&mut l, which, &z, rng, 6, 3, 24);
        }
        "C12" => {
            let mut t = gen_leaps(rng, true);
            t.0.truncate(6);
            let mut extra = vec![];
            for _ in 0..2 {
                let (li, _) = *rng.pick(&t.0);
                extra.push(li + rng.range(-3_000_000, 3_000_000));
            }
            c12::check_table(&mut l, &t, &extra);
        }
        "C13" => {
            let mut cfg = ZoneCfg::lookup();
            cfg.max_transitions = 12;
            if sel % 3 == 0 {
                cfg.rule = *rng.pick(&[RuleMode::Fixed, RuleMode::Alt]);
            }
            let z = gen_zone(rng, &cfg);
            c13::fuzz_case(&mut l, &z, rng);
        }
        _ => {}
    }
    for (what, input, expected, observed) in crate::facade::take_side() {
        l.violation(&what, input, expected, observed);
    }
    l
}
