#!/bin/sh
# Runs checks against a *patched scratch copy* of /repo (never /repo itself), mirroring the layout
# <scratch>/repo + <scratch>/verif so that the harness' path dependency ../../repo resolves to the copy.
# usage: scratch_check.sh PATCH "PROP [PROP...]" [TIER] [extra ./check args...]
# prints the verdict lines of every check; the scratch directory is removed afterwards.
set -u
PATCH=$(readlink -f "$1"); PROPS=$2; TIER=${3:-quick}; shift; shift; [ $# -gt 0 ] && shift
HERE=$(cd "$(dirname "$0")/.." && pwd)
REPO=$(cd "$HERE/../repo" && pwd)
S=$(mktemp -d /tmp/st.XXXXXX)
trap 'rm -rf "$S"' EXIT INT TERM
mkdir -p "$S/repo" "$S/verif"
rsync -a --exclude target --exclude '.git' "$REPO/" "$S/repo/"
rsync -a --exclude 'target*' --exclude work --exclude evidence --exclude replays --exclude '.git' --exclude seeded "$HERE/" "$S/verif/"
mkdir -p "$S/verif/evidence" "$S/verif/replays" "$S/verif/work"
if [ "$PATCH" != "/dev/null" ]; then
  ( cd "$S/repo" && patch -p1 -s < "$PATCH" ) || { echo "PATCH-FAILED $PATCH"; exit 3; }
fi
# the patched tree must still compile and pass the baseline tests, otherwise it is not a seeded change
if [ "${SKIP_BASELINE:-0}" != "1" ]; then
  ( cd "$S/repo" && CARGO_TARGET_DIR="$S/repo-target" cargo test --offline 2>&1 | grep -E "^test result|FAILED|error(\[|:)" | head -5 | sed 's/^/  baseline: /' )
fi
for p in $PROPS; do
  ( cd "$S/verif" && ./check $p --tier $TIER "$@" 2>"$S/err-$p.txt" | grep -E "^(HELD|VIOLATION|INCONCLUSIVE|KNOWN-FINDING)" | cut -c1-200 | sed "s|$S|<scratch>|g" | sed "s/^/  $p: /" )
  grep -E "^\s+\[|input:|expected:|observed:" "$S/err-$p.txt" | head -${SHOW:-4} | cut -c1-400 | sed "s/^/     /"
done
