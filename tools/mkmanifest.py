#!/usr/bin/env python3
"""Regenerates MANIFEST.json from the table below (checks that exist in lib/layers.py are claimed;
everything else is listed under not_applicable with the reason)."""
import json, os, sys
HERE = os.path.dirname(os.path.dirname(os.path.abspath(__file__)))
sys.path.insert(0, os.path.join(HERE, "lib"))
import layers

props = [json.loads(l) for l in open(os.path.join(HERE, "properties.jsonl"))]

TEXT = {
 "C01": ("reference-model oracle (era-based calendar, odometer-validated) on return events of the three gmtime entry points (from_timespec, from_total_nanoseconds, DateTime::from_timespec on UTC); the 400-year day cycle is enumerated completely, every region of the i32 year range is probed per 400-year cycle at 14 boundary days (quick: 43 000 cycles incl. all near 2000 and both ends; thorough: all 10.7 M cycles); range/i64 edges; random instants", "trusts the hand-written calendar model M-cal (self-tested against a day-by-day odometer at start-up)"),
 "C02": ("validity oracle (month-length rule) + day-count oracle on UtcDateTime::new, both round trips, order claim on perturbed pairs; validity grid enumerated for 58 (thorough: 16 000) years", "trusts M-cal; error variants are not compared (statement names none)"),
 "C03": ("linear-scan zone model with independent leap-second model against binary search lookup, owned and borrowed zones, every transition instant -2..+2, tables up to 4097 (thorough 2^20) entries; the table-less shorthands TimeZone::utc / TimeZone::fixed over the i32 offset range", "trusts M-zone / M-leap (brute-force self-tests); zones are generated, not enumerated"),
 "C04": ("period model [S(y), next E) over 400 consecutive years for IANA, idiom, random and purposely tied rules, through constructed zones, TZ descriptions and version-3 footers", "trusts M-rule (rule days by walking the month); degenerate rules (S=E every year) are left unspecified"),
 "C05": ("search results compared with the exact set {c-o : forward(c-o) has offset o}, with the model's and the implementation's own forward lookup; convert-back and localtime->search round trips; tie-constructing local times; real vendored zones; unique() also through the buffer-based search on a re-used buffer", "trusts M-find/M-zone; rules with overlapping DST periods (known finding F3) are excluded from random generation and replayed from explicit witnesses"),
 "C06": ("gap oracle defined from the clock at X-1 and X for table, junction and rule transitions; order, uniqueness of each gap, earliest/latest", "as C05; zones whose table transitions coincide in UTC through an inserted leap second (known finding F5) are excluded from random generation and replayed from explicit witnesses"),
 "C07": ("the facade's own monitors (panic hook, counting allocator with hard cap, thread CPU clock, CPU-time hang monitor naming a case that never returns) over hostile inputs to every public operation: every truncation of vendored files, structured mutations, hostile counts, TZ-string edits and numbers at the width limits of the machine integers, constructors at i32/i64 extremes, all queries on whatever parses, and a read-back of whatever was accepted (designation getters, Debug text of types, rule, zone and search results: a value that should have been refused fails there); designation octets of any value; release and overflow-checked builds", "a clean run is not memory safety; tz-rs forbids unsafe code, so panics/overflow/allocation are the reachable failure modes"),
 "C15": ("N-thread vs alone result digests on shared zones (2/4/8/16 threads, barriers, random yields, the thread's errno overwritten before every call), including the default settings on the real file system (TimeZone::local / from_posix_tz) and the clock readers; the injected reader monitors the paths it is handed; hostile readers (a reader that resolves a TZ value itself, readers waiting for each other, somebody else's reader panicking) with a deadlock detector on thread states; LD_PRELOAD interposer on getenv/setenv/putenv/tzset/localtime* and strace window (only the opens the TZ resolution rules name); digest invariance under TZ/TZDIR/LANG/cwd; writable/TLS sections of the compiled rlib; auto-trait assertions incl. Freeze; Miri (and ThreadSanitizer in the thorough tier) on the thread workload", "the 'all future edits' quantifier is decided per tree; the artefact-section and auto-trait observations are build-time observations labelled as such"),
 "C19": ("the crate is built with no features / alloc / std and a deterministic no-alloc workload, an alloc-level one (incl. TZ value resolution through 12 directory-list shapes with a path-sensitive reader, error messages, reader errors of several std::io kinds, call histories with three readers serving different contents under the same paths), every value and error under 12 format specifications, and a replay of 3000 zones + queries written by the harness' own generators (tie rules, IANA rules, leap tables, every table shape) are run against each build; digests must be identical", "differential; each build's results are pinned to oracles by the other checks on the std build"),
 "C08": ("differential decoding: an independent RFC 8536 writer and decoder (Must / MustFail / Unspec) against from_tz_data on generated v1/v2/v3 files, all 894 distinct vendored tzdata files and every single-field corruption of the named kinds; designation tables longer than 256 octets, 256 local time types; footers with a newline inside or more lines after them", "trusts M-tzif (writer and decoder are checked against each other on every generated file; disagreement = inconclusive)"),
 "C09": ("recursive-descent recogniser + denotation written from the grammar against three entry points (settings, v2 footer, v3 footer): grammar cross product, every single-character edit of sentences, every number replaced by congruent / oversized values, sentences wrapped in non-ASCII white space, thorough: all strings of length <= 6 over a 14-letter alphabet", "trusts M-posix; in-range numbers written with more than 3 digits, ASCII whitespace and non-ASCII letters next to an unquoted name are left unspecified"),
 "C20": ("tzset(3) resolution model over a virtual file system with a recording reader: exact sequence of paths requested and result class, exhaustively over 56 value shapes x 9 directory lists x all assignments of five file states (absent, valid, garbage, empty, structurally well-formed but not a valid zone); parse_local shorthand", "trusts M-resolve; the real file system is not involved in this check"),
 "C10": ("record-and-replay differential: tz-rs' answers for every transition -1/0/+1, random and far-future instants and local times around every transition of every table (19th century included) are logged and replayed offline against CPython zoneinfo and glibc reading the same vendored files (all 1243 paths in both tiers, the thorough tier with ten times the random instants and twenty times the rule-governed years; the footer rule's future transitions located by bisection), plus TZ descriptions against glibc's parser", "trusts zoneinfo and glibc 2.36 as oracles, with the exclusions listed in the evidence assumptions"),
 "C11": ("brute-force 400-year definition against the constructor on all 1 324 801 day-notation pairs x breakpoints of d (thorough: all 105 breakpoints, each realised twice and at the extreme translations of the two UTC-scale day times, so that 'acceptance depends on d only' is observed), error variant = first violated condition", "trusts M-rule day tables (closed form validated against walking the month over the cycle)"),
 "C12": ("probe zones pin the hidden UTC<->leap-count conversions: forward switch instant, instant reported by the search, their agreement, monotonicity; tables of both signs incl. the real 27-record one; probe zones with both offsets away from UTC, transitions closer to a record than the offsets, searches at the edges of the gap judged by the C05/C06 search oracle; probe zones with the last record and the transition within a few seconds of i64::MAX (records that are never reached)", "trusts M-leap (f defined as max{L: g(L)<=u}, brute-force validated)"),
 "C13": ("clause-by-clause validator against both constructors on valid zones, every single-defect perturbation at first/middle/last position, extremes, rule switches placed on the last transition at a leap record, near-equal designations, one to three arbitrary edits of valid zones, random malformed tuples, and designations of 2^8 .. 2^17 octets", "trusts the A.3 validator; error variants compared on single-defect inputs only"),
 "C14": ("field and total-nanoseconds invariant applied by the facade to every DateTime produced by any workload of any check, instants whose nanosecond count sits on a power of two, every valid search result compared with DateTime::new of the same fields and type, plus a dedicated workload over all constructors, projection and the comparison claims (incl. second-60 values against every other spelling of the same instant)", "trusts M-cal"),
 "C16": ("explicit-sign floor division in i128 against all three total-nanosecond constructors, total_nanoseconds(), range edges, every power of two as a count, i128 extremes, the zone-taking constructor near every switch of generated zones, counts whose seconds are k*2^64 away from an in-range value, ns validation of the constructors and of the search on five zone shapes and nine dates (Feb 29, second 60, month ends)", "trusts M-cal and the 10-line splitter"),
 "C17": ("find_n against the allocating search for every buffer length 0..k+2 with stale pre-filled buffers, error cases included (refused arguments, and errors that arise while an entry is built: gaps within an offset of either range end)", "the allocating search is the oracle (its own correctness is C05/C06)"),
 "C18": ("independent regular-grammar reader of the rendering; fields, nanoseconds and offset read back and compared with the getters; offsets over the full i32 range, each carried by four local time types (flag / designation varied); a Display error is a violation of its own; second 60 at the top of the range", "trusts M-text"),
}

TECH = {
 "C07": "runtime monitoring: panic hook + counting allocator + thread CPU clock on hostile workloads (release + overflow-checked builds, Miri slice; thorough: libFuzzer+ASan, valgrind memcheck)",
 "C10": "runtime monitoring: offline checker over a recorded event log against two foreign implementations (CPython zoneinfo, glibc)",
 "C15": "runtime monitoring: N-thread vs alone result digests, LD_PRELOAD getenv/tzset interposer, strace window, Miri / ThreadSanitizer; build-time artefact-section scan and auto-trait assertions",
 "C19": "runtime monitoring: differential result digests of one workload across the three feature builds",
 "C20": "runtime monitoring: recorded reader-call history checked against a tzset(3) resolution model over a virtual file system",
}


def entry(pid):
    text, note = TEXT.get(pid, ("runtime monitor", ""))
    return {
        "property_id": pid,
        "quick_cmd": "./check %s --tier quick" % pid,
        "thorough_cmd": "./check %s --tier thorough" % pid,
        "evidence_file": "evidence/%s.json" % pid,
        "replay_cmd_template": "./check %s --replay {path}" % pid,
        "engine": "tzmon",
        "level_claimed": {"category": "exploration", "text": text + "; held on the executions listed in the evidence file, not a proof", "design_ref": "DESIGN.md section 5 " + pid},
        "level_note": note,
        "technique": TECH.get(pid, "runtime monitoring: reference-model oracle on API call/return events of the real code (release + overflow-checked builds, Miri slice" + ("; thorough: coverage-guided libFuzzer + ASan over the decision tape of the generators with the same oracle inside" if pid in layers.MODEL_FUZZ_PROPS else "") + ")"),
    }

claimed = sorted(layers.PROPS.keys())
m = {
 "version": 1,
 "setup_cmd": "./setup.sh",
 "hooks": {"guard": "tz_rs_verif", "enable": "no hooks are needed: every property is observable at the public API; the guard name --cfg tz_rs_verif is reserved and unused", "baseline_off_cmd": "cd /repo && cargo test --workspace --no-fail-fast --offline", "source_commits": [], "add_only": True},
 "engines": [{"name": "tzmon", "path": "harness", "serves_properties": claimed, "kind_free_text": "Rust harness (std only): reference-model oracles, invariant facade with event ring, seeded tie-constructing generators and complete enumerations; run in release + overflow-checked builds and under Miri; python driver ./check"}],
 "checks": [entry(p) for p in claimed],
 "notes": "runtime monitoring and sanitizers; see DESIGN.md. Known findings: known_findings.json.",
 "not_applicable": [{"property_id": p["id"], "reason": "check under construction in this session (DESIGN.md Appendix B); not claimed yet"} for p in props if p["id"] not in claimed],
}
json.dump(m, open(os.path.join(HERE, "MANIFEST.json"), "w"), indent=1)
print("claimed:", claimed)
