#!/bin/sh
# runs every claimed check at the given tier, prints one line per check (status, seconds)
cd "$(dirname "$0")/.."
TIER=${1:-quick}
for p in $(python3 -c "import json;print(' '.join(c['property_id'] for c in json.load(open('MANIFEST.json'))['checks']))"); do
  s=$(date +%s)
  out=$(./check $p --tier $TIER 2>/dev/null | grep -E "^(HELD|VIOLATION|INCONCLUSIVE|KNOWN-FINDING)" | cut -c1-160 | tr '\n' ';')
  rc=$?
  e=$(date +%s)
  echo "$p $((e-s))s $out"
done
