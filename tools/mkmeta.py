#!/usr/bin/env python3
"""writes seeded/<id>/meta.json.  usage: mkmeta.py <id> <change> <needs> <caught_by comma list> [note]"""
import json, sys
wid, change, needs, caught = sys.argv[1:5]
note = sys.argv[5] if len(sys.argv) > 5 else None
m = {
 "property": wid[:3],
 "author": "independent sub-agent given only the property text, a scratch worktree and the ideas of the earlier rounds to avoid (tools/seed_prompt.py)",
 "change": change,
 "needs_to_manifest": needs,
 "confirmed_by_me": {
  "tool": "tools/collect_seed.sh %s (= tools/confirm_seed.sh seeded/%s)" % (wid, wid),
  "original_plus_demo": "demo passes",
  "patched_baseline": "42 unit tests + 3 doctests pass; builds with no features / alloc / std",
  "patched_plus_demo": "demo fails"
 },
 "checks_run": "tools/scratch_check.sh seeded/%s/patch.diff '%s' quick (VERIF_SKIP_LAYERS=miri)" % (wid, " ".join(caught.split(","))),
 "caught_by": caught.split(","),
}
if note: m["note"] = note
json.dump(m, open("/verif/seeded/%s/meta.json" % wid, "w"), indent=1)
