#!/bin/sh
# Collects a finished seeding worktree /tmp/seed/<id> into seeded/<id>/ (patch.diff, demo.rs, NOTE.md), confirms it
# independently (tools/confirm_seed.sh) and removes the worktree with its build output.  usage: collect_seed.sh <id>
set -e
ID=$1; W=/tmp/seed/$ID; HERE=$(cd "$(dirname "$0")/.." && pwd); D=$HERE/seeded/$ID
[ -d "$W" ] || { echo "no worktree $W"; exit 1; }
mkdir -p "$D"
git -C "$W" diff -- src Cargo.toml > "$D/patch.diff"
cp "$W/tests/demo.rs" "$D/demo.rs"; [ -f "$W/NOTE.md" ] && cp "$W/NOTE.md" "$D/NOTE.md"
"$HERE/tools/confirm_seed.sh" "$D"
git -C /repo worktree remove --force "$W"; rm -f /tmp/seed/$ID.patch
