#!/usr/bin/env python3
"""Writes the task description given to an independent seeding sub-agent: only the property text, its own
scratch worktree, and the ideas already used for that property (so that it looks elsewhere).
usage: seed_prompt.py <worktree-id e.g. C03c> <out-file>   (nothing from /verif except the property text is shown)"""
import json, sys

AVOID = {
"C03": "(1) confusing unix_time with unix_leap_time in the end-of-table test; (2) a fast path 'before the first transition' with <= instead of <. Prefer: which side of an exact transition instant a lookup falls on in the middle of the table when a leap correction applies, the junction between the last transition and the rule (Fixed vs Alternate vs none), what is returned before the first transition for tables whose first type is unusual, or the leap conversion used by the lookup at a record boundary.",
"C04": "(1) cutting the search for the nearest differing year to +-3 years; (2) using S(y-1) for S(y+1) in one leaf of the decision tree. Prefer: the day computation of a rule day (Mm.5.d in months with four vs five such week days, February in leap years, Jn after Feb 29 of a leap year, n = 365 in a non-leap year, n = 59/60), day times that are negative or above 24 h carrying a transition across the year boundary, southern-hemisphere rules at the exact transition second, or years at the far ends of the i32 range.",
"C05": "(1) reusing a leap-scale loop variable as a UTC-scale rule start; (2) indexing the alternating 7-entry array by slice-relative parity. Prefer: folds (both readings valid) at exact boundaries of the repeated interval, the junction table part / rule part, local times before the first transition, the set returned by find_n vs find, or zones whose two offsets differ by an unusual amount (e.g. 30 min, or more than a day).",
"C06": "(1) the wrong tuple element in the gap test; (2) is_cancelled reading the unsliced array. Prefer: the before/after values of a Skipped entry (instant, type, fields), inclusive/exclusive ends of a gap at the exact second and with nanoseconds, backward transitions producing gaps they should not, or gaps at the junction of the table and the rule.",
"C07": "(1) year +- delta computed in i32 before the guard; (2) slicing footer[1..len-1] on a one-byte footer. Prefer: header count arithmetic on hostile TZif headers, numeric overflow while parsing long digit strings in TZ strings, designation slicing at unusual byte values, extreme year / time arguments of find and the constructors, or work that grows without bound for some input.",
"C08": "(1) zero- instead of sign-extension of 32-bit times; (2) a wrong check of the std/wall and UT/local indicator blocks. Prefer: choosing between the v1 and the v2+ data block, version bytes (1/2/3/4 and NUL), designation index / NUL termination and shared suffixes, leap-second record widths in v1 vs v2, type index range, the footer (absent, empty, v3 extensions only when version >= 3), truncated or trailing bytes.",
"C09": "(1) applying the sign to the hour field only; (2) accepting a '+' sign without the v3 extensions. Prefer: quoted designations <...> (allowed characters, length limits 3..), the default DST offset (standard + 1 h) and default transition time 02:00:00, field ranges of Mm.w.d / Jn / n, hour limits (24 vs 167) with and without extensions, rejection of trailing garbage or missing parts.",
"C13": "(1) leaving the last transition's type index unchecked; (2) a spacing check through saturating_add which saturates at i64::MAX. Prefer: strict ordering of transitions, correction steps of exactly +-1 and the first record, which error variant is returned for which defect and the order of the checks when several defects are present, consistency between the last transition and the extra rule, limits on type count / designation validity.",
"C15": "(1) a TZDIR environment fallback; (2) a process-global 'last directory' hint. Prefer anything else that makes a result depend on process-global or thread-local mutable state, or on the environment, or that makes one of the public types lose Send/Sync/Unpin/UnwindSafe/RefUnwindSafe, while every documented call still returns the right answer when used from one thread once.",
"C17": "(1) a helper that iterates the whole caller buffer including stale entries; (2) argument validation moved into a lazily run closure. Prefer: count() / is_exhaustive() when the buffer is smaller than the number of results, which results are kept and in which order, an allocation sneaking into the buffer-based path under some feature set, or a difference between find and find_n results for specific zones.",
"C20": "(1) treating ':localtime' like 'localtime'; (2) skipping zero-length files. Prefer: the leading ':' handling for other values, absolute vs relative paths, the order of the directories, what happens when a file is found but invalid (must not fall through), values that are both a valid TZ string and a file name, the empty value, or surrounding whitespace / NUL bytes.",
}

TMPL = '''You are helping to test a verification harness by writing ONE realistic seeded fault (a bug-introducing change) for the Rust crate tz-rs (a pure-Rust reimplementation of localtime/gmtime/mktime: TZif parser, POSIX TZ string parser, DST rule evaluation, calendar arithmetic).

Work ONLY inside the git worktree at /tmp/seed/WID (a checkout of the crate). Do NOT read, list or touch /verif or /repo or any other directory under /tmp/seed. The sandbox has no network: always pass --offline to cargo. Do not run `conda` or edit shell configuration files.

The semantic property your change must break:

PROPERTY_TEXT
Earlier rounds already tried these ideas, so do NOT use them or close variants: AVOID

Requirements
1. The crate still compiles (cargo build --offline; cargo build --offline --no-default-features; cargo build --offline --no-default-features --features alloc) and ALL existing tests still pass unchanged (cargo test --offline --lib; cargo test --offline --doc). Do not edit or delete existing tests. The existing test suite is fairly good, so check early that your idea survives it.
2. The change breaks the property above, but ONLY under something specific: an unusual input, a particular boundary value, a multi-step sequence of operations, a rarely taken branch, or two cooperating edits that each look fine alone. It must NOT be something that ordinary use or a casual smoke test would expose at once. Think of a plausible refactoring slip, an "optimisation", a wrong boundary comparison on a rare path, a mishandled corner of the format. Keep it small and realistic - the kind of patch that could pass code review. The rarer the trigger (while still being a genuine violation of the property), the better.
3. Write a demonstration as an integration test file tests/demo.rs in the worktree (using only the crate's public API, crate name `tz`) that FAILS with your change and PASSES on the original code. Verify both directions yourself. IMPORTANT: never use `git stash`; use `git diff -- src > /tmp/seed/WID.patch; git apply -R /tmp/seed/WID.patch; cargo test --offline --test demo; git apply /tmp/seed/WID.patch; cargo test --offline --test demo`.
4. Leave the change applied in the worktree (uncommitted) together with tests/demo.rs, and write NOTE.md in the worktree root: what the change does, why it breaks the property, exactly what is needed for it to manifest, and the commands you ran with their results.

Final answer (concise, at most ~100 lines in total): the output of `git diff -- src`, a 5-line summary of what tests/demo.rs checks, and a 10-line summary of NOTE.md (what is needed to manifest). The full files stay in the worktree.
'''

def main():
    wid, out = sys.argv[1], sys.argv[2]
    pid = wid[:3]
    props = {}
    for l in open('/verif/properties.jsonl'):
        p = json.loads(l)
        props[p['id']] = "%s: %s\n\nStatement: %s\n\nQuantified over: %s\n" % (p['id'], p['title'], p['statement'], p['quantifier']['text'])
    open(out, 'w').write(TMPL.replace("WID", wid).replace("PROPERTY_TEXT", props[pid]).replace("AVOID", AVOID.get(pid, "(none)")))

main()
