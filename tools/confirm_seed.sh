#!/bin/sh
# Confirms a seeded change independently of whoever wrote it, in a scratch copy of /repo:
#  (a) original tree + demo: the demo passes;  (b) patched tree: 42 baseline tests + doctests pass, builds in all feature sets;
#  (c) patched tree + demo: the demo fails.   usage: confirm_seed.sh <seeded-dir>
D=$(readlink -f "$1"); S=$(mktemp -d /tmp/cs.XXXXXX); trap 'rm -rf "$S"' EXIT INT TERM
rsync -a --exclude target --exclude .git /repo/ "$S/repo/"; cd "$S/repo"; mkdir -p tests; cp "$D/demo.rs" tests/demo.rs
export CARGO_TARGET_DIR="$S/t"
a=$(cargo test --offline --test demo 2>&1 | grep -E "^test result" | head -1)
patch -p1 -s < "$D/patch.diff" || { echo "$(basename $D): PATCH FAILED"; exit 1; }
b1=$(cargo test --offline --lib 2>&1 | grep -E "^test result" | head -1)
b2=$(cargo test --offline --doc 2>&1 | grep -E "^test result" | head -1)
b3=$(cargo build --offline --no-default-features 2>&1 | tail -1)
b4=$(cargo build --offline --no-default-features --features alloc 2>&1 | tail -1)
c=$(cargo test --offline --test demo 2>&1 | grep -E "^test result" | head -1)
echo "$(basename $D): original+demo: [$a]  patched lib: [$b1] doc: [$b2] nostd: [$b3] alloc: [$b4]  patched+demo: [$c]"
