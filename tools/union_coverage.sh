#!/bin/sh
# One-off aid (not a registered check): union line coverage of /repo/src over the quick workloads of all tzmon
# monitors, to look for code no workload drives. Output: work/union-coverage.txt (uncovered lines per file).
cd "$(dirname "$0")/.."; HERE=$(pwd)
T=$(ls -d ~/.rustup/toolchains/nightly-x86_64*/lib/rustlib/*/bin | head -1)
cd harness
RUSTFLAGS="-Cinstrument-coverage" CARGO_TARGET_DIR=target-cov cargo +nightly build --release --offline 2>&1 | tail -1
B=target-cov/release/tzmon
mkdir -p "$HERE/work/cov"; rm -f "$HERE/work/cov/"*.profraw
for p in C01 C02 C03 C04 C05 C06 C17 C07 C08 C09 C10 C11 C12 C13 C14 C15 C16 C18 C20; do
  LLVM_PROFILE_FILE="$HERE/work/cov/$p.profraw" $B $p --tier quick --seed 1 --threads 16 --scale ${SCALE:-0.2} --corpus "$HERE/corpus" --out /dev/null --opt events="$HERE/work/cov/ev-$p" 2>&1 | tail -1
done
rm -rf "$HERE/work/cov/"ev-*
$T/llvm-profdata merge -sparse "$HERE/work/cov/"*.profraw -o "$HERE/work/cov/all.profdata"
$T/llvm-cov report -instr-profile "$HERE/work/cov/all.profdata" $B 2>/dev/null | grep -E "repo/src|Filename|TOTAL" | sed 's|.*/repo/src/|src/|' > "$HERE/work/union-coverage-summary.txt"
$T/llvm-cov show -instr-profile "$HERE/work/cov/all.profdata" $B --show-line-counts-or-regions=false 2>/dev/null > "$HERE/work/cov/show.txt"
python3 - "$HERE/work/cov/show.txt" > "$HERE/work/union-coverage.txt" <<'PY'
import sys,re
cur=None
for ln in open(sys.argv[1],errors='replace'):
    if ln.startswith('/') and ln.rstrip().endswith(':'):
        cur=ln.strip()[:-1]; continue
    if cur and '/repo/src/' in cur:
        m=re.match(r"\s*(\d+)\|\s*0\|(.*)",ln)
        if m: print("%s:%s:%s"%(cur.split('/repo/')[1],m.group(1),m.group(2)[:150]))
PY
$T/llvm-cov export -instr-profile "$HERE/work/cov/all.profdata" $B 2>/dev/null > "$HERE/work/cov/export.json"
python3 - "$HERE/work/cov/export.json" > "$HERE/work/union-coverage-regions.txt" <<'PY'
import sys,json
d=json.load(open(sys.argv[1]))
for f in d["data"][0]["files"]:
    name=f["filename"]
    if "/repo/src/" not in name: continue
    try: src=open(name).read().splitlines()
    except Exception: src=[]
    for seg in f["segments"]:
        line,col,count,has,entry,gap=seg[:6]
        if has and entry and not gap and count==0:
            text=src[line-1] if 0<line<=len(src) else ""
            print("%s:%d:%d: %s"%(name.split("/repo/")[1],line,col,text.strip()[:140]))
PY
rm -f "$HERE/work/cov/"*.profraw "$HERE/work/cov/show.txt" "$HERE/work/cov/export.json"
cat "$HERE/work/union-coverage-summary.txt"
