//! libFuzzer target with the model oracles inside: the input is the decision tape of the harness' generators
//! (see tzmon::fuzzcase). The property whose oracle runs is named by the environment variable TZMON_FUZZ_PROP,
//! so that a report belongs to exactly one property. A monitor violation aborts, so libFuzzer keeps the tape;
//! `tzmon TAPE --opt prop=Cxx --opt file=<artifact>` replays it outside the fuzzer.
#![no_main]
use libfuzzer_sys::fuzz_target;
use std::sync::OnceLock;

static PROP: OnceLock<String> = OnceLock::new();

fuzz_target!(|data: &[u8]| {
    let prop = PROP.get_or_init(|| std::env::var("TZMON_FUZZ_PROP").unwrap_or_else(|_| "C03".into()));
    let l = tzmon::fuzzcase::run(prop, data);
    if let Some(e) = l.harness_errors.first() {
        // a defect of the harness is not a verdict on tz-rs: reported, not kept as a crash
        eprintln!("TZMON-FUZZ-HARNESS-ERROR {}", e);
        return;
    }
    if let Some(v) = l.violations.first() {
        eprintln!("TZMON-FUZZ-VIOLATION {} | {} | expected {} | observed {}", v.what, v.input, v.expected, v.observed);
        std::process::abort();
    }
});
