//! libFuzzer target: arbitrary bytes as TZ description through the three entry points, judged by M-posix (C09).
#![no_main]
use libfuzzer_sys::fuzz_target;
use tzmon::core::Local;
use tzmon::mon::c09;

fuzz_target!(|data: &[u8]| {
    if data.len() > 96 {
        return;
    }
    let mut l = Local::default();
    c09::check_string(&mut l, data);
    if let Some(v) = l.violations.first() {
        eprintln!("TZMON-FUZZ-VIOLATION {} | {} | expected {} | observed {}", v.what, v.input, v.expected, v.observed);
        std::process::abort();
    }
});
