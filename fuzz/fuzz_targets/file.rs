//! libFuzzer target with the oracles inside: arbitrary bytes -> M-tzif's independent decoder vs
//! TimeZone::from_tz_data (C08), then every query operation on whatever parses (C07; overflow checks
//! and debug assertions on, ASan on). A monitor violation aborts, so libFuzzer keeps the input.
#![no_main]
use libfuzzer_sys::fuzz_target;
use tzmon::core::Local;
use tzmon::mon::{c07, c08};
use tzmon::util::rng::Rng;

fuzz_target!(|data: &[u8]| {
    let mut l = Local::default();
    c08::compare(&mut l, data, "libFuzzer");
    if let Ok(z) = tz::TimeZone::from_tz_data(data) {
        let mut m = c07::Meter { worst_ratio_x1000: 0, worst_cpu_ns: 0, calls: 0 };
        let mut rng = Rng::new(data.len() as u64);
        c07::exercise(&mut l, &mut m, z.as_ref(), data.len(), &mut rng, &|| String::from("fuzz input"));
    }
    for (what, input, expected, observed) in tzmon::facade::take_side() {
        l.violation(&what, input, expected, observed);
    }
    if let Some(v) = l.violations.first() {
        eprintln!("TZMON-FUZZ-VIOLATION {} | {} | expected {} | observed {}", v.what, v.input, v.expected, v.observed);
        std::process::abort();
    }
});
